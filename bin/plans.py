"""Per-property plans: which model checks, which drivers, which judge."""

EVAL_ASSUME = [
    "TLC 1.8.0 and the CommunityModules Json/IOUtils modules are correct",
    "the harness records faithfully (tagged JSON of results, effects, Dump text parsed by a plain S-expression reader)",
    "custom operators f,p,g,h of the harness implement Operators.tla!Custom verbatim",
    "integers stay within TLC's 32-bit window (generator keeps a static bound); int64 extremes are C18's",
]


def jeval():
    return {"module": "JudgeEval", "cfg": "JudgeEval.cfg"}


def sample_eval(o):
    v = o["vars"][0]
    r = v["runs"][0] if v.get("runs") else {}
    return {"src": o["src"], "variant": v.get("m"), "env": o["envs"][0] if o.get("envs") else None,
            "res": r.get("res"), "eff": r.get("eff")}


def jtry():
    return {"module": "JudgeTry", "cfg": "JudgeTry.cfg"}


def sample_try(o):
    if o.get("fam") == "fetch":
        return {"library_context": o["kind"], "keys": o["km"], "history": o["ops"][:4]}
    t = o["tries"][len(o["tries"]) // 2] if o.get("tries") else {}
    return {"src": o["src"], "variant": o["var"].get("m"), "available": t.get("av"),
            "env": o["envs"][t["e"] - 1] if t else None, "tryeval": t.get("res"),
            "eval_under_completions": [e["res"] for e in t.get("evals", [])][:4]}


def steps(nq, nt):
    """step-level trace validation of the engine's Debug stream against Machine!EvalNext / TryNext (spec/TraceSteps.tla)"""
    return {"quick": ["events", "-exh", "1", "-exhmax", "40", "-n", str(nq), "-depth", "5", "-seed", "{seed}", "-progevery", "1"],
            "thorough": ["events", "-exh", "2", "-exhmax", "1500", "-n", str(nt), "-depth", "6", "-seed", "{seed}", "-progevery", "1"]}


PLANS = {
    "C01": {
        "mc": {"quick": [{"module": "MCEval", "cfg": "cfg/MCEval.C01.quick.cfg", "emit_cases": "cases.ndjson"}],
               "thorough": [{"module": "MCEval", "cfg": "cfg/MCEval.C01.thorough.cfg", "emit_cases": "cases.ndjson"}]},
        "drive": {"quick": [{"args": ["eval", "-for", "C01", "-cases", "{S}/cases.ndjson", "-exh", "1", "-exhmax", "1500", "-n", "2500", "-depth", "5",
                                      "-seed", "{seed}", "-progevery", "9"]}],
                  "thorough": [{"args": ["eval", "-for", "C01", "-cases", "{S}/cases.ndjson", "-exh", "2", "-exhmax", "60000", "-n", "60000", "-depth", "6",
                                         "-seed", "{seed}", "-progevery", "40"]}]},
        "judge": jeval(),
        "replay_args": ["eval", "-for", "C01", "-n", "0", "-progevery", "1"],
        "step_trace": steps(150, 4000),
        "rule": "one evaluation = (source tree, compile mode in {registered, undefined-variable, directive}, binding) with "
                "optimizations off; judged: Eval/EvalBool outcome = Den(tree, binding) incl. sentinel error identity; "
                "non-trivial = the evaluation fails or short-circuits past a failing operand; trees are distinct by source text",
        "sample": sample_eval, "assumptions": EVAL_ASSUME,
    },
    "C02": {
        "mc": {"quick": [{"module": "MCEval", "cfg": "cfg/MCEval.C02.quick.cfg", "emit_cases": "cases.ndjson"}],
               "thorough": [{"module": "MCEval", "cfg": "cfg/MCEval.C02.thorough.cfg", "timeout": 3400, "emit_cases": "cases.ndjson"}]},
        "drive": {"quick": [{"args": ["eval", "-for", "C02", "-cases", "{S}/cases.ndjson", "-exh", "1", "-exhmax", "400", "-n", "700", "-depth", "5",
                                      "-seed", "{seed}", "-progevery", "40"]}],
                  "thorough": [{"args": ["eval", "-for", "C02", "-cases", "{S}/cases.ndjson", "-exh", "2", "-exhmax", "15000", "-n", "15000", "-depth", "6",
                                         "-seed", "{seed}", "-progevery", "200"]}]},
        "judge": jeval(),
        "replay_args": ["eval", "-for", "C02", "-n", "0", "-progevery", "1"],
        "step_trace": steps(150, 4000),
        "rule": "one evaluation = (source tree, variant, binding); variants = all 16 optimization subsets given by options, "
                "plus subsets given by ;;;; directives / directives overriding options, plus Reordering under cost maps "
                "(negative, zero, huge, Inf, NaN); judged: pairwise agreement, total => all = Den, no-reordering => Den, "
                "directive form == option form (Dump and DumpTable); non-trivial = the variant's decompiled program "
                "differs from the unoptimized one",
        "sample": sample_eval, "assumptions": EVAL_ASSUME,
    },
    "C03": {
        "mc": {"quick": [{"module": "MCEval", "cfg": "cfg/MCEval.C03.quick.cfg", "emit_cases": "cases.ndjson"}],
               "thorough": [{"module": "MCEval", "cfg": "cfg/MCEval.C03.thorough.cfg", "timeout": 3400, "emit_cases": "cases.ndjson"}]},
        "drive": {"quick": [{"args": ["eval", "-for", "C03", "-cases", "{S}/cases.ndjson", "-exh", "1", "-exhmax", "1000", "-n", "2500", "-depth", "5",
                                      "-seed", "{seed}", "-progevery", "15"]}],
                  "thorough": [{"args": ["eval", "-for", "C03", "-cases", "{S}/cases.ndjson", "-exh", "2", "-exhmax", "40000", "-n", "40000", "-depth", "6",
                                         "-seed", "{seed}", "-progevery", "100"]}]},
        "judge": jeval(),
        "replay_args": ["eval", "-for", "C03", "-n", "0", "-progevery", "1"],
        "step_trace": steps(150, 4000),
        "rule": "one evaluation = (source tree, option subset / cost map, binding of all variables); judged: the ordered log "
                "of VariableFetcher.Get and registered-operator calls (name, parameters, result) is a log of left-to-right "
                "short-circuit evaluation of the tree parsed back from the real Dump (Semantics!Match, with the permitted "
                "two-leaf relaxation under FastEvaluation); non-trivial = effects observed and something was skipped",
        "sample": sample_eval, "assumptions": EVAL_ASSUME,
    },
    "C10": {
        "mc": {"quick": [{"module": "MCFold", "cfg": "cfg/MCFold.quick.cfg", "emit_cases": "cases.ndjson"}],
               "thorough": [{"module": "MCFold", "cfg": "cfg/MCFold.thorough.cfg", "emit_cases": "cases.ndjson"}]},
        "drive": {"quick": [{"args": ["eval", "-for", "C10", "-cases", "{S}/cases.ndjson", "-n", "3000", "-depth", "4", "-seed", "{seed}", "-progevery", "15"]}],
                  "thorough": [{"args": ["eval", "-for", "C10", "-cases", "{S}/cases.ndjson", "-n", "80000", "-depth", "5", "-seed", "{seed}", "-progevery", "100"]}]},
        "judge": jeval(),
        "replay_args": ["eval", "-for", "C10", "-n", "0", "-progevery", "1"],
        "rule": "one evaluation = (source tree mixing constants, variables, built-in, stateless-declared p, undeclared f/g/h, "
                "option subset, binding), each evaluated 3 times; judged: compile-time calls only of p, Compile never fails, "
                "variables/undeclared operators survive wherever the permitted folding keeps them, every repetition performs "
                "the calls again, deferred failure = Den; non-trivial = constant folding changes the tree",
        "sample": sample_eval, "assumptions": EVAL_ASSUME,
    },
    "C04": {
        "mc": {"quick": [{"module": "MCTry", "cfg": "cfg/MCTry.quick.cfg", "emit_cases": "cases.ndjson"},
                         {"module": "MCFetch", "cfg": "cfg/MCFetch.quick.cfg"}],
               "thorough": [{"module": "MCTry", "cfg": "cfg/MCTry.thorough.cfg", "timeout": 3400, "emit_cases": "cases.ndjson"},
                            {"module": "MCFetch", "cfg": "cfg/MCFetch.thorough.cfg"}]},
        "drive": {"quick": [{"args": ["try", "-for", "C04", "-cases", "{S}/cases.ndjson", "-exh", "1", "-exhmax", "150", "-n", "450", "-depth", "4",
                                      "-seed", "{seed}", "-progevery", "8"]},
                            {"args": ["fetch", "-for", "C04", "-n", "400", "-seed", "{seed}"]}],
                  "thorough": [{"args": ["fetch", "-for", "C04", "-n", "6000", "-seed", "{seed}"]},
                               {"args": ["try", "-for", "C04", "-cases", "{S}/cases.ndjson", "-exh", "2", "-exhmax", "6000", "-n", "9000", "-depth", "5",
                                         "-seed", "{seed}", "-progevery", "50"]}]},
        "judge": jtry(),
        "replay_args": ["try", "-for", "C04", "-n", "0", "-progevery", "1"],
        "step_trace": steps(150, 4000),
        "rule": "one evaluation = (source tree, option subset / cost map, binding, available/unavailable split) with Eval "
                "run under up to 8 completions of the unavailable variables; judged: Sound (definite TryEval = Eval under "
                "every completion for which Eval succeeds), AgreeWhenAll, Monotone over the recorded splits, TryEvalBool "
                "mirrors TryEval; the splits are realised by the instrumented fetcher and, again, by the library's own contexts "
                "(NewCtxFromVars with keys 0.. = slice, keys 300.. = map); plus histories of Get/Set/Cached on library contexts "
                "(one step = one call, stepped through Fetchers.tla); non-trivial = a definite answer while some variable is "
                "unavailable, or a Set / a first read of a context",
        "sample": sample_try, "assumptions": EVAL_ASSUME,
    },
    "C05": {
        "mc": {"quick": [{"module": "MCTry", "cfg": "cfg/MCTry.quick.cfg", "emit_cases": "cases.ndjson"},
                         {"module": "MCFetch", "cfg": "cfg/MCFetch.quick.cfg"}],
               "thorough": [{"module": "MCTry", "cfg": "cfg/MCTry.thorough.cfg", "timeout": 3400, "emit_cases": "cases.ndjson"},
                            {"module": "MCFetch", "cfg": "cfg/MCFetch.thorough.cfg"}]},
        "drive": {"quick": [{"args": ["try", "-for", "C05", "-cases", "{S}/cases.ndjson", "-exh", "1", "-exhmax", "200", "-n", "900", "-depth", "4",
                                      "-seed", "{seed}", "-progevery", "8"]},
                            {"args": ["fetch", "-for", "C05", "-n", "400", "-seed", "{seed}"]}],
                  "thorough": [{"args": ["fetch", "-for", "C05", "-n", "6000", "-seed", "{seed}"]},
                               {"args": ["try", "-for", "C05", "-cases", "{S}/cases.ndjson", "-exh", "2", "-exhmax", "8000", "-n", "20000", "-depth", "5",
                                         "-seed", "{seed}", "-progevery", "50"]}]},
        "judge": jtry(),
        "replay_args": ["try", "-for", "C05", "-n", "0", "-progevery", "1"],
        "step_trace": steps(150, 4000),
        "rule": "one evaluation = (source tree, option subset / cost map, binding, available/unavailable split); judged on "
                "expressions none of whose sub-expressions fail: Kleene definite => TryEval returns it, Kleene unknown => "
                "DNE or a definite value (never an error), TryEvalBool = ErrDNE exactly for DNE; splits realised by the "
                "instrumented fetcher and by the library's own contexts; plus Get/Set/Cached histories on library contexts "
                "stepped through Fetchers.tla; non-trivial = Kleene is definite while some variable is unavailable, or a Set / "
                "a first read of a context",
        "sample": sample_try, "assumptions": EVAL_ASSUME,
    },
    "C12": {
        "mc": {"quick": [{"module": "MCEvents", "cfg": "cfg/MCEvents.quick.cfg", "emit_cases": "cases.ndjson"}],
               "thorough": [{"module": "MCEvents", "cfg": "cfg/MCEvents.thorough.cfg", "timeout": 3400, "emit_cases": "cases.ndjson"}]},
        "drive": {"quick": [{"args": ["events", "-cases", "{S}/cases.ndjson", "-exh", "1", "-exhmax", "150", "-n", "700", "-depth", "4",
                                      "-seed", "{seed}", "-progevery", "2"]}],
                  "thorough": [{"args": ["events", "-cases", "{S}/cases.ndjson", "-exh", "2", "-exhmax", "5000", "-n", "20000", "-depth", "5",
                                         "-seed", "{seed}", "-progevery", "40"]}]},
        "judge": {"module": "JudgeEvents", "cfg": "JudgeEvents.cfg"},
        "step_trace": {"reuse": True},
        "replay_args": ["events", "-n", "0", "-progevery", "1"],
        "rule": "one evaluation = (source tree, option subset, ReportEvent or Debug, binding, call in {Eval under a consumer that "
                "copies on receipt / reads a buffered channel after the call / retains events un-copied, TryEval}); judged: "
                "result and Dump unchanged by events, OP_EXEC of registered operators = the calls the instrumented operators saw, "
                "every built-in OP_EXEC self-consistent (result = operator(arguments)), application sequence = AppSeq of the "
                "decompiled tree, LOOP positions strictly increasing, retained LOOP snapshots = copies; non-trivial = at least "
                "two two-operand applications (the reused argument buffer is overwritten)",
        "sample": lambda o: {"src": o["src"], "mask": o["on"].get("m"), "mode": o["on"].get("ev"),
                             "events_seen_by_buffered_reader": (o["runs"][0]["buffered"]["evs"][:6] if o.get("runs") else None)},
        "assumptions": EVAL_ASSUME,
    },
    "C09": {
        "mc": {"quick": [{"module": "MCCap", "cfg": "cfg/MCCap.quick.cfg"}],
               "thorough": [{"module": "MCCap", "cfg": "cfg/MCCap.thorough.cfg"}]},
        "drive": {"quick": [{"args": ["cap", "-seed", "{seed}", "-tier", "quick"]}],
                  "thorough": [{"args": ["cap", "-seed", "{seed}", "-tier", "thorough"], "timeout": 3400}]},
        "judge": {"module": "JudgeCap", "cfg": "JudgeCap.cfg"},
        "replay_args": ["cap", "-seed", "1", "-tier", "quick"],
        "engine": "capacity",
        "rule": "one case = (family instance: fan / nested fan / right- and left-leaning chain / comparison fan / if chain, "
                "with operand counts around 127 incl. reached only by ReduceNesting, node counts around 16383 and 32767, "
                "stack needs around 8 and 16; option subset; events off / ReportEvent / Debug); judged with the REAL limits: "
                "beyond a limit => Compile error (never a panic), up to the limits => compiles and Eval/TryEval = closed-form "
                "value, observed stack high-water (LOOP snapshots) <= maxStackSize <= allocated; non-trivial = within a few "
                "units of a limit or of a stack class boundary",
        "sample": lambda o: {"desc": o["desc"], "mask": o["m"], "events": o["ev"], "compile": o["cout"],
                             "max_stack": o.get("max"), "runs": o.get("runs")},
        "assumptions": ["closed forms of Capacity.tla (proved against the model by MCCap on small parameters) describe the families",
                        "TLC, Json module, harness recording"],
    },
    "C14": {
        "mc": {"quick": [{"module": "MCLayout", "cfg": "cfg/MCLayout.quick.cfg"},
                         {"module": "MCCursor", "cfg": "cfg/MCCursor.quick.cfg"}],
               "thorough": [{"module": "MCLayout", "cfg": "cfg/MCLayout.thorough.cfg", "timeout": 3400},
                            {"module": "MCCursor", "cfg": "cfg/MCCursor.thorough.cfg", "timeout": 3400}]},
        "drive": {"quick": [{"args": ["layout", "-exh", "4", "-n", "3000", "-depth", "4", "-seed", "{seed}"]}],
                  "thorough": [{"args": ["layout", "-exh", "5", "-n", "60000", "-depth", "5", "-seed", "{seed}"]}]},
        "judge": {"module": "JudgeLayout", "cfg": "JudgeLayout.cfg"},
        "replay_args": ["layout", "-exh", "0", "-n", "0"],
        "engine": "frontend",
        "rule": "kind fmt: one case = a text (every text up to the exhaustive length over 12 characters incl. quote, "
                "semicolon, brackets, NBSP; random texts over the whole character table; rendered expressions and their "
                "re-layouts), judged: IndentByParentheses output (1x, 2x) has the same tokens and comments under the real lexer "
                "(prefix and infix) and under the model lexer; kind relayout: one case = (expression, re-layout by Unicode "
                "white space / comments incl. a late ;;;; directive / minimal spacing / formatter 1x and 3x), judged: same "
                "compile outcome, Dump, DumpTable and results; non-trivial = the formatter changed the text of a multi-token "
                "input, or a re-layout",
        "sample": lambda o: {"kind": o["kind"], "src": o["src"], "formatted": o.get("f1"), "variants": [v.get("how") for v in o.get("variants", [])]},
        "assumptions": ["the character table of harness/chars.go maps each model character to exactly one rune",
                        "TLC, Json module, harness recording, VerifLex hook"],
    },
    "C06": {
        "mc": {"quick": [{"module": "MCParse", "cfg": "cfg/MCParse.quick.cfg"},
                         {"module": "MCParse", "cfg": "cfg/MCParse.guards.quick.cfg", "emit_cases": "guards.txt"},
                         {"module": "MCEval", "cfg": "cfg/MCEval.C06.quick.cfg"},
                         {"module": "MCCursor", "cfg": "cfg/MCCursor.quick.cfg"}],
               "thorough": [{"module": "MCParse", "cfg": "cfg/MCParse.thorough.cfg", "timeout": 3400},
                            {"module": "MCParse", "cfg": "cfg/MCParse.guards.thorough.cfg", "emit_cases": "guards.txt", "timeout": 3400},
                            {"module": "MCEval", "cfg": "cfg/MCEval.C06.thorough.cfg", "timeout": 3400},
                            {"module": "MCCursor", "cfg": "cfg/MCCursor.thorough.cfg", "timeout": 3400}]},
        "drive": {"quick": [{"args": ["total", "-cases", "{S}/guards.txt", "-exh", "4", "-n", "3000", "-depth", "4", "-seed", "{seed}", "-tier", "quick"]}],
                  "thorough": [{"args": ["total", "-cases", "{S}/guards.txt", "-exh", "5", "-n", "60000", "-depth", "5", "-seed", "{seed}", "-tier", "thorough"],
                                "timeout": 3400}]},
        "judge": {"module": "JudgeTotal", "cfg": "JudgeTotal.cfg"},
        "replay_args": ["total", "-exh", "0", "-n", "0"],
        "engine": "frontend",
        "rule": "kind text: one case = (text, notation in {prefix, infix}, undefined-variable mode on/off): every text up to the "
                "exhaustive length over 14 characters, every token sequence one shorter over 18 tokens, random longer token "
                "sequences, every truncation and random token mutations of valid expressions, huge / deep / non-ASCII / "
                "invalid-UTF-8 inputs; Compile under recover(), then Eval, TryEval (3 bindings incl. lists, sets, nil), Dump, "
                "DumpTable on what compiled, with a watchdog; kind op: every operator and alias applied to 0..4 parameters over "
                "the whole value universe (bools, ints incl. extremes, strings, lists, sets, nil, DNE), plain and fast path; "
                "judged: result or error, never a panic / both / neither / hang; non-trivial = a rejected text of two or more "
                "characters, an accepted text, or an operator error",
        "sample": lambda o: ({"text": o.get("srctext"), "outcomes": [m["cout"] for m in o["modes"]]} if o["kind"] == "text"
                             else {"call": o["src"], "params": o["ps"], "outcomes": o["outs"]}),
        "assumptions": ["watchdog of 20 s per call decides 'hang'", "TLC, Json module, harness recording"],
    },
    "C15": {
        "mc": {"quick": [{"module": "MCInfix", "cfg": "cfg/MCInfix.quick.cfg"}],
               "thorough": [{"module": "MCInfix", "cfg": "cfg/MCInfix.thorough.cfg", "timeout": 3400}]},
        "drive": {"quick": [{"args": ["infix", "-n", "3000", "-depth", "5", "-seed", "{seed}"]}],
                  "thorough": [{"args": ["infix", "-n", "80000", "-depth", "6", "-seed", "{seed}"]}]},
        "judge": {"module": "JudgeInfix", "cfg": "JudgeInfix.cfg"},
        "replay_args": ["infix", "-n", "0"],
        "engine": "frontend",
        "rule": "one case = (typed tree over all binary infix operators, unary !, named n-ary calls, if, bracket lists; rendering "
                "style in {minimal parentheses spaced, minimal spacing, redundant parentheses spaced, redundant + minimal "
                "spacing}; option subset; 3 bindings); judged: infix compilation = prefix compilation (Dump text, DumpTable, "
                "results) and, with optimizations off, the decompiled tree is the source tree; non-trivial = trees of four or "
                "more nodes",
        "sample": lambda o: {"prefix": o["src"], "infix": [v["text"] for v in o["infix"]], "results": o["prefix"]["res"]},
        "assumptions": ["the harness' infix renderer parenthesises by the documented precedence table (the same rule MCInfix checks on the model)",
                        "TLC, Json module, harness recording"],
    },
    "C13": {
        "mc": {"quick": [{"module": "MCDump", "cfg": "cfg/MCDump.quick.cfg"}],
               "thorough": [{"module": "MCDump", "cfg": "cfg/MCDump.thorough.cfg", "timeout": 3400}]},
        "drive": {"quick": [{"args": ["dump", "-exh", "2", "-n", "3000", "-depth", "5", "-seed", "{seed}"]}],
                  "thorough": [{"args": ["dump", "-exh", "3", "-n", "60000", "-depth", "6", "-seed", "{seed}"]}]},
        "judge": {"module": "JudgeDump", "cfg": "JudgeDump.cfg"},
        "replay_args": ["dump", "-exh", "-1", "-n", "0"],
        "engine": "frontend",
        "rule": "one case = (expression whose string / list / int literals have contents over every class of character the lexer "
                "can put inside a literal -- every content up to the exhaustive length at two nesting depths, random contents "
                "in random trees; option subset; events off / ReportEvent / Debug); judged on programs not folded to a bare "
                "scalar: Dump compiles under the same names (optimizations off), same results on every binding incl. bindings "
                "of s to the literal contents, Dump of the recompiled program = the text, Dump independent of event mode; "
                "non-trivial = a literal contains a backslash, line break, tab, non-ASCII space or control character",
        "sample": lambda o: {"src": o["src"], "dump": o.get("d1text"), "recompiled_dump": o.get("d2text"), "mask": o["m"], "events": o["ev"]},
        "assumptions": ["TLC, Json module, harness recording; character table of harness/chars.go"],
    },
    "C16": {
        "mc": {"quick": [{"module": "MCReorder", "cfg": "cfg/MCReorder.quick.cfg"}],
               "thorough": [{"module": "MCReorder", "cfg": "cfg/MCReorder.thorough.cfg", "timeout": 3400}]},
        "drive": {"quick": [{"args": ["reorder", "-n", "5000", "-depth", "3", "-seed", "{seed}"]}],
                  "thorough": [{"args": ["reorder", "-n", "120000", "-depth", "4", "-seed", "{seed}"]}]},
        "judge": {"module": "JudgeReorder", "cfg": "JudgeReorder.cfg"},
        "replay_args": ["reorder", "-n", "0"],
        "engine": "eval",
        "rule": "one case = (expression, the other three optimizations on/off, cost map M over the names it mentions and the "
                "class keys with integer / fractional / negative values, a name k, M with k raised by 0.25 / 1 / 40, M with "
                "k = 1e300); four compilations (Reordering off; on under M, raised, huge); judged on the Dump trees: only "
                "and/or operand lists are permuted, operands equal up to renaming equal-cost variables keep source order "
                "(symmetric constructions), a raise never moves an operand mentioning k ahead of one that does not, a huge "
                "cost puts all operands mentioning k last and keeps the order of the others; non-trivial = reordering "
                "changed the tree or a symmetric construction is present",
        "sample": lambda o: {"src": o["src"], "costs": o["costs"], "raised_name": o["k"], "mask": o["m"]},
        "assumptions": EVAL_ASSUME,
    },
    "C17": {
        "mc": {"quick": [{"module": "MCOps", "cfg": "cfg/MCOps.C17.cfg"}], "thorough": [{"module": "MCOps", "cfg": "cfg/MCOps.C17.cfg"}]},
        "drive": {"quick": [{"args": ["ops", "-for", "C17", "-seed", "{seed}", "-tier", "quick"]}],
                  "thorough": [{"args": ["ops", "-for", "C17", "-seed", "{seed}", "-tier", "thorough"]}]},
        "judge": {"module": "JudgeOps", "cfg": "JudgeOps.cfg"},
        "replay_args": ["ops", "-for", "C17", "-seed", "1", "-tier", "quick"],
        "engine": "operators",
        "rule": "one evaluation = ((overlap A B) and (overlap B A), or (in v L); lists as prefix literals folded at compile time, "
                "as []int64/[]string/[]int/[]int32 variables, as pre-built sets; plain and fast path); lists = every pair of int "
                "lists of length 0..3 over three elements (duplicates, shared / disjoint), as is and padded with fresh distinct "
                "elements to combined length 99 / 100 / 101 / 250 on the left, the right or both, shared elements first / middle "
                "/ last, both element types; empty literal and typed empty lists on either side, mismatched element types, "
                "scalars; judged: overlap = non-empty intersection, in = membership, symmetric, mismatch = error; non-trivial = "
                "combined length >= 99 or an empty side or any `in` call",
        "sample": lambda o: {"call": o["src"], "a": str(o["a"])[:80], "b": str(o["b"])[:80], "outs": o["outs"][:2]},
        "assumptions": ["TLC, Json module, harness recording"],
    },
    "C18": {
        "mc": {"quick": [{"module": "MCOps", "cfg": "cfg/MCOps.C18.cfg"}], "thorough": [{"module": "MCOps", "cfg": "cfg/MCOps.C18.cfg"}]},
        "drive": {"quick": [{"args": ["ops", "-for", "C18", "-seed", "{seed}", "-tier", "quick"]}],
                  "thorough": [{"args": ["ops", "-for", "C18", "-seed", "{seed}", "-tier", "thorough"]}]},
        "judge": {"module": "JudgeOps", "cfg": "JudgeOps.cfg"},
        "replay_args": ["ops", "-for", "C18", "-seed", "1", "-tier", "quick"],
        "engine": "operators",
        "rule": "kind call: one evaluation = (operator spelling incl. every alias, parameter vector of arity 0..5 over {MIN, MIN+1, "
                "-2, -1, 0, 1, 2, MAX-1, MAX, 3037000500, -2^32} and wrong types {bool, string, list, nil} at every position, "
                "zero divisors at every later position; operands as literals (folded), variables, fast path); judged: value = "
                "two's-complement fold computed on limbs (Int64.tla) / int64 order / boolean fold, error exactly when the table "
                "says so, all aliases and paths agree; kind divmod: (/ a b) and (% a b) judged by the defining relation of "
                "truncated division incl. MIN / -1; kind fold: (op a b c) = (op (op a b) c) on observed values; non-trivial = an "
                "operand outside 31 bits, an arity other than 2, or a zero divisor",
        "sample": lambda o: {k: o.get(k) for k in ("kind", "canon", "ps", "outs", "a", "b", "q", "r", "op", "ab", "ab_c", "abc") if k in o},
        "assumptions": ["Int64.tla (validated against TLC integers by MCOps on the small window)", "TLC, Json module, harness recording"],
    },
    "C19": {
        "mc": {"quick": [{"module": "MCVer", "cfg": "cfg/MCVer.quick.cfg"}], "thorough": [{"module": "MCVer", "cfg": "cfg/MCVer.thorough.cfg", "timeout": 3400}]},
        "drive": {"quick": [{"args": ["ops", "-for", "C19", "-seed", "{seed}", "-tier", "quick"]}],
                  "thorough": [{"args": ["ops", "-for", "C19", "-seed", "{seed}", "-tier", "thorough"]}]},
        "judge": {"module": "JudgeOps", "cfg": "JudgeOps.cfg"},
        "replay_args": ["ops", "-for", "C19", "-seed", "1", "-tier", "quick"],
        "engine": "operators",
        "rule": "kind ver: one case = (pair of version strings with 1..4 components from {0,1,2,9,10,99,100,9998,9999, random, "
                "leading zeros} and invalid ones {10000, 12345, letters, empty, 1a}; valid length absent / 0..5; operator name "
                "in {version, to_version, t_version}; literal or variable); judged: accepted exactly when valid, exact "
                "encoding (base 10000, on limbs), <, =, > of the encodings = component-wise comparison with missing components "
                "as 0; kind date: one case = (civil date/time fields incl. year 1 / 9999, leap days, Feb 30, 2038 boundary; "
                "default and custom layouts; all eight date operators; broken separator / trailing text / empty), judged: Unix "
                "seconds = days-from-civil * 86400 + second of day exactly, unparsable => error",
        "sample": lambda o: {k: o.get(k) for k in ("kind", "src", "ta", "tb", "n", "ea", "eb", "lt", "eq", "gt", "text", "layout", "res") if k in o},
        "assumptions": ["Go's layout language is not modelled: the driver renders each date from its fields for a fixed list of layouts",
                        "Int64.tla, Encodings.tla; TLC, Json module, harness recording"],
    },
    "C20": {
        "mc": {"quick": [{"module": "MCGen", "cfg": "cfg/MCGen.quick.cfg"}],
               "thorough": [{"module": "MCGen", "cfg": "cfg/MCGen.thorough.cfg", "timeout": 3400}]},
        "drive": {"quick": [{"args": ["gen", "-n", "12000", "-depth", "8", "-seed", "{seed}"]}],
                  "thorough": [{"args": ["gen", "-n", "300000", "-depth", "12", "-seed", "{seed}"]}]},
        "judge": {"module": "JudgeGen", "cfg": "JudgeGen.cfg"},
        "replay_args": ["gen", "-n", "0"],
        "engine": "generator",
        "rule": "one case = (seed, level 0..depth and occasionally up to 53, result type, the 8 combinations of EnableVariable / "
                "EnableCondition / EnableTryEval, one of four variable sets incl. a zero-valued number and DNE variables) run "
                "through the real GenerateRandomExpr with every draw recorded; judged: reported result = Den of the generated "
                "tree (Kleene when DNE variables occur), only given variables occur, the expression compiles, evaluates without "
                "failing, and the engine agrees; number-typed expressions whose intermediate values may leave 30 bits are counted "
                "as unjudged (wide arithmetic), never as violations; non-trivial = trees of five or more nodes",
        "sample": lambda o: {"level": o["level"], "options": {k: o["cfg"][k] for k in ("var", "cond", "try", "type")}, "expr": o["src"][:200],
                             "reported": o.get("res"), "draws": o["draws"][:12]},
        "assumptions": ["the generator draws only through rand.Rand.Intn (31-bit path), recorded by a wrapping rand.Source",
                        "TLC, Json module, harness recording and S-expression reader"],
    },
    "C11": {
        "mc": {"quick": [{"module": "MCReg", "cfg": "cfg/MCReg.quick.cfg"}], "thorough": [{"module": "MCReg", "cfg": "cfg/MCReg.thorough.cfg", "timeout": 3400}]},
        "drive": {"quick": [{"args": ["reg", "-n", "6000", "-seed", "{seed}"]}],
                  "thorough": [{"args": ["reg", "-n", "150000", "-seed", "{seed}"]}]},
        "judge": {"module": "JudgeReg", "cfg": "JudgeReg.cfg"},
        "apalache": [
            {"module": "RegistryInd", "init": "IndInit", "inv": "IndInv", "length": 0,
             "what": "every injective key map with arbitrary integer keys satisfies IndInv"},
            {"module": "RegistryInd", "init": "IndInv", "inv": "IndInv", "length": 1,
             "what": "IndInv (injective, assignments stable, idempotent, fresh positive key) is preserved by every registration: "
                     "histories of any length, keys over all of Int, five interchangeable names"},
            {"module": "RegistryInd", "init": "IndInv", "inv": "Total", "length": 0,
             "what": "the allocation rule always has a key to hand out"},
        ],
        "replay_args": ["reg", "-n", "200", "-seed", "1"],
        "engine": "histories",
        "rule": "one history = (pre-populated key map with distinct keys over {-32768, -2, 0..3, 5, 100, 253..257, 32767}, "
                "undefined-variable mode on/off, 1..6 steps of GetOrRegisterKey / RegVarAndOp incl. repeated names; then "
                "expressions (probe v1 .. vk) over the registered variables in permuted operand positions under option subsets "
                "incl. the fast path, evaluated through NewCtxFromVars, an explicit map fetcher and an explicit slice fetcher, "
                "with bindings of every source type of the normalisation table); judged per step: key map injective, existing "
                "assignments unchanged, returned key = recorded key, re-registration changes nothing; per read: every operand "
                "value = Normalise(binding); non-trivial = a step that extends a non-empty map, or a read of two or more variables",
        "sample": lambda o: {"km0": o["km0"], "steps": o["steps"][:3], "chosen_fetcher": o.get("chosen"), "read": (o["reads"][0] if o["reads"] else None)},
        "assumptions": ["TLC, Json module, harness recording (key map copied after every step; operand values copied inside the probe operator)"],
    },
    "C08": {
        "mc": {"quick": [{"module": "CompileHistory", "cfg": "cfg/MCCompile.quick.cfg"}],
               "thorough": [{"module": "CompileHistory", "cfg": "cfg/MCCompile.thorough.cfg"}]},
        "drive": {"quick": [{"args": ["compile", "-for", "sequential", "-n", "1500", "-seed", "{seed}"]},
                            {"args": ["compile", "-for", "concurrent", "-n", "1500", "-seed", "{seed}"], "race": True}],
                  "thorough": [{"args": ["compile", "-for", "sequential", "-n", "40000", "-seed", "{seed}"]},
                               {"args": ["compile", "-for", "concurrent", "-n", "20000", "-seed", "{seed}"], "race": True, "timeout": 3400}]},
        "judge": {"module": "JudgeCompile", "cfg": "JudgeCompile.cfg"},
        "replay_args": ["compile", "-n", "100", "-seed", "1"],
        "engine": "histories",
        "rule": "kind history: one history = 3..10 operations on up to four real configs (contents over constants, variables incl. "
                "undefined-variable mode, operators, costs, options present / absent, stateless list): Compile of one of sixteen "
                "sources (directive combinations: none, optimize:false, single optimizers off/on, later-overrides-earlier; "
                "unknown names; stateless calls), CopyConfig / ExtendConf followed by mutation of every component of the copy "
                "and an append to the source's stateless list, caller mutation in place (options, another stateless list of the same length, "
                "constants, costs), a TWIN (the same contents rebuilt from scratch, never compiled on) with the stateless-sensitive sources "
                "compiled on the used config and on the twin, every program rendered again at the end of the history; deep snapshot of the config before and after "
                "every call, program fingerprint = Dump + DumpTable + results; judged: snapshot unchanged by Compile, same "
                "(contents, source) => same fingerprint across the whole history, mutating a copy never changes its source, no later step changes an already compiled program; "
                "kind concurrent: 8 goroutines x 12 compilations on one shared config vs the sequential baseline, built with "
                "-race (a race report with an access inside onheap/eval is a violation); kind conv: the convenience call "
                "eval.Eval(src, vals) without options, 4 calls per source with the same names but the operator functions behind "
                "f/g and zt/zf exchanged from call to call, each value judged against Semantics!Den under that call's operators; "
                "cost maps that price two spellings of an operator while the source uses the third; non-trivial = a compile after an "
                "earlier compile on the same config, a copy/extend step, or a concurrent run",
        "sample": lambda o: {"kind": o["kind"], "steps": o.get("steps", [])[:4], "runs": o.get("runs", [])[:3]},
        "assumptions": ["Go race detector (linux/amd64 runtime present)", "snapshots render every exported field of Config; operators by code pointer",
                        "TLC, Json module, harness recording"],
    },
    "C07": {
        "mc": {"quick": [{"module": "Concurrent", "cfg": "cfg/MCConc.quick.cfg", "emit_cases": "cases.txt", "workers": 4},
                         {"module": "Concurrent", "cfg": "cfg/MCConc.mixed.cfg", "emit_cases": "casesm.txt", "workers": 4},
                         {"module": "Concurrent", "cfg": "cfg/MCConc.try.cfg", "emit_cases": "casest.txt", "workers": 4},
                         {"module": "ConcEvents", "cfg": "cfg/MCConcEv.quick.cfg", "emit_cases": "casesev.txt", "workers": 4}],
               "thorough": [{"module": "Concurrent", "cfg": "cfg/MCConc.quick.cfg", "emit_cases": "cases.txt", "workers": 4},
                            {"module": "Concurrent", "cfg": "cfg/MCConc.mixed.cfg", "emit_cases": "casesm.txt", "workers": 4},
                            {"module": "Concurrent", "cfg": "cfg/MCConc.try.cfg", "emit_cases": "casest.txt", "workers": 4},
                            {"module": "ConcEvents", "cfg": "cfg/MCConcEv.quick.cfg", "emit_cases": "casesev.txt", "workers": 4},
                            {"module": "Concurrent", "cfg": "cfg/MCConc.thorough.cfg", "emit_cases": "cases3.txt", "workers": 8, "timeout": 3400}]},
        "drive": {"quick": [{"args": ["conc", "-cases", "{S}/cases.txt", "-n", "0", "-seed", "{seed}"]},
                            {"args": ["conc", "-cases", "{S}/casesm.txt", "-n", "0", "-seed", "{seed}"]},
                            {"args": ["conc", "-cases", "{S}/casest.txt", "-n", "0", "-seed", "{seed}"]},
                            {"args": ["conc", "-cases", "{S}/casesev.txt", "-n", "0", "-seed", "{seed}"]},
                            {"args": ["conc", "-n", "400", "-seed", "{seed}"], "race": True}],
                  "thorough": [{"args": ["conc", "-cases", "{S}/cases.txt", "-n", "0", "-seed", "{seed}"], "timeout": 3400},
                               {"args": ["conc", "-cases", "{S}/casesm.txt", "-n", "0", "-seed", "{seed}"], "timeout": 3400},
                               {"args": ["conc", "-cases", "{S}/casest.txt", "-n", "0", "-seed", "{seed}"], "timeout": 3400},
                               {"args": ["conc", "-cases", "{S}/casesev.txt", "-n", "0", "-seed", "{seed}"], "timeout": 3400},
                               {"args": ["conc", "-cases", "{S}/cases3.txt", "-exhmax", "30000", "-n", "0", "-seed", "{seed}"], "timeout": 3400},
                               {"args": ["conc", "-n", "8000", "-seed", "{seed}"], "race": True, "timeout": 3400}]},
        "judge": {"module": "JudgeConc", "cfg": "JudgeConc.cfg"},
        "replay_args": ["conc", "-n", "100", "-seed", "1"],
        "engine": "histories",
        "rule": "kind sched: one case = (one of five programs with fetches, registered-operator calls, binary and fast operators, "
                "short circuits and if; a schedule GENERATED BY TLC from Concurrent.tla -- every interleaving of the processes' "
                "effect steps) replayed on the real code: N goroutines on one shared Expr, each released through gates in its "
                "fetcher / operators in the prescribed order; kind history: 4..11 calls (Eval, TryEval, Dump, DumpTable; random "
                "bindings, some failing) on one Expr; kind stress: 16 free-running goroutines x 40 calls on one Expr, events off / "
                "ReportEvent / Debug, built with -race; judged: every call = the same call alone on a freshly compiled program "
                "(result, sentinel error identity, ordered effects with parameters), exported program identical before and "
                "after, no race report with an access inside onheap/eval; non-trivial = a schedule with more steps than twice "
                "the processes, or any history / stress call",
        "sample": lambda o: {"kind": o["kind"], "src": o["src"], "schedule": o.get("sched"), "calls": o["calls"][:2]},
        "assumptions": ["Go race detector observes memory accesses below gate granularity; TLC enumerates gate-level schedules",
                        "gates: entry of VariableFetcher.Get and entry of registered operators", "TLC, Json module, harness recording"],
    },
}

ENGINES = [
    {"name": "eval", "path": "spec/ (Values, Operators, Semantics, Optimizer, Layout, Machine, Fetchers, MCEval, MCFold, MCTry, MCFetch, MCEvents, MCReorder, JudgeEval, JudgeTry, JudgeEvents, JudgeReorder, TraceSteps) + harness/ (fam_eval, fam_try, fam_fetch, fam_events, fam_reorder)",
     "serves_properties": ["C01", "C02", "C03", "C04", "C05", "C10", "C12", "C16"],
     "kind_free_text": "TLA+ specification of optimizer, layout and the Eval/TryEval stack machines; TLC bounded model checking; "
                       "TLC trace validation of observations recorded by the Go harness from the real code, incl. step-level replay of the "
                       "engine's Debug stream against the machines' next-state relation (TraceSteps)"},
]
ENGINES.append({"name": "capacity", "path": "spec/Capacity.tla, MCCap.tla, JudgeCap.tla + harness/fam_cap.go",
                "serves_properties": ["C09"],
                "kind_free_text": "scaled-down limits model-checked; real limits judged by closed forms"})
ENGINES.append({"name": "frontend", "path": "spec/Lexer.tla, Formatter.tla, Parser.tla, Dump.tla, MCLayout.tla, MCCursor.tla, MCParse.tla, MCInfix.tla, MCDump.tla, JudgeLayout.tla, JudgeTotal.tla, JudgeInfix.tla, JudgeDump.tla + harness/fam_layout.go, fam_total.go, fam_infix.go, fam_dump.go",
                "serves_properties": ["C06", "C13", "C14", "C15"],
                "kind_free_text": "lexer and formatter as character-level machines over model characters; exhaustive short texts; trace validation of the real lexer/formatter"})
ENGINES.append({"name": "operators", "path": "spec/Operators.tla, Int64.tla, Encodings.tla, MCOps.tla, MCVer.tla, JudgeOps.tla + harness/fam_ops.go",
                "serves_properties": ["C17", "C18", "C19"],
                "kind_free_text": "operator table transcribed case by case; laws model-checked on the table; single-operator expressions judged against it (int64 via limbs)"})
ENGINES.append({"name": "generator", "path": "spec/Generator.tla, MCGen.tla, JudgeGen.tla + harness/fam_gen.go",
                "serves_properties": ["C20"],
                "kind_free_text": "GenerateRandomExpr as a consumer of a draw script; model-checked over scripts; real runs with recorded draws replayed through the model"})
ENGINES.append({"name": "histories", "path": "spec/Registry.tla, RegistryInd.tla (Apalache), MCReg.tla, JudgeReg.tla, CompileHistory.tla, JudgeCompile.tla, Concurrent.tla, ConcEvents.tla, ConcProgs.tla, JudgeConc.tla + harness/fam_reg.go, fam_compile.go, fam_conc.go",
                "serves_properties": ["C07", "C08", "C11"],
                "kind_free_text": "histories and schedules: registration histories, compile histories on shared configs, concurrent evaluations on a shared program (gated schedules + Go race detector)"})
NOT_APPLICABLE = {}
