"""Per-property plans: which model checks, which drivers, which judge."""

EVAL_ASSUME = [
    "TLC 1.8.0 and the CommunityModules Json/IOUtils modules are correct",
    "the harness records faithfully (tagged JSON of results, effects, Dump text parsed by a plain S-expression reader)",
    "custom operators f,p,g,h of the harness implement Operators.tla!Custom verbatim",
    "integers stay within TLC's 32-bit window (generator keeps a static bound); int64 extremes are C18's",
]


def jeval():
    return {"module": "JudgeEval", "cfg": "JudgeEval.cfg"}


def sample_eval(o):
    v = o["vars"][0]
    r = v["runs"][0] if v.get("runs") else {}
    return {"src": o["src"], "variant": v.get("m"), "env": o["envs"][0] if o.get("envs") else None,
            "res": r.get("res"), "eff": r.get("eff")}


PLANS = {
    "C01": {
        "mc": {"quick": [{"module": "MCEval", "cfg": "cfg/MCEval.C01.quick.cfg"}],
               "thorough": [{"module": "MCEval", "cfg": "cfg/MCEval.C01.thorough.cfg"}]},
        "drive": {"quick": [{"args": ["eval", "-for", "C01", "-exh", "1", "-exhmax", "1500", "-n", "2500", "-depth", "5",
                                      "-seed", "{seed}", "-progevery", "9"]}],
                  "thorough": [{"args": ["eval", "-for", "C01", "-exh", "2", "-exhmax", "60000", "-n", "60000", "-depth", "6",
                                         "-seed", "{seed}", "-progevery", "40"]}]},
        "judge": jeval(),
        "replay_args": ["eval", "-for", "C01", "-n", "0", "-progevery", "1"],
        "rule": "one evaluation = (source tree, compile mode in {registered, undefined-variable, directive}, binding) with "
                "optimizations off; judged: Eval/EvalBool outcome = Den(tree, binding) incl. sentinel error identity; "
                "non-trivial = the evaluation fails or short-circuits past a failing operand; trees are distinct by source text",
        "sample": sample_eval, "assumptions": EVAL_ASSUME,
    },
    "C02": {
        "mc": {"quick": [{"module": "MCEval", "cfg": "cfg/MCEval.C02.quick.cfg"}],
               "thorough": [{"module": "MCEval", "cfg": "cfg/MCEval.C02.thorough.cfg", "timeout": 3400}]},
        "drive": {"quick": [{"args": ["eval", "-for", "C02", "-exh", "1", "-exhmax", "400", "-n", "700", "-depth", "5",
                                      "-seed", "{seed}", "-progevery", "40"]}],
                  "thorough": [{"args": ["eval", "-for", "C02", "-exh", "2", "-exhmax", "15000", "-n", "15000", "-depth", "6",
                                         "-seed", "{seed}", "-progevery", "200"]}]},
        "judge": jeval(),
        "replay_args": ["eval", "-for", "C02", "-n", "0", "-progevery", "1"],
        "rule": "one evaluation = (source tree, variant, binding); variants = all 16 optimization subsets given by options, "
                "plus subsets given by ;;;; directives / directives overriding options, plus Reordering under cost maps "
                "(negative, zero, huge, Inf, NaN); judged: pairwise agreement, total => all = Den, no-reordering => Den, "
                "directive form == option form (Dump and DumpTable); non-trivial = the variant's decompiled program "
                "differs from the unoptimized one",
        "sample": sample_eval, "assumptions": EVAL_ASSUME,
    },
    "C03": {
        "mc": {"quick": [{"module": "MCEval", "cfg": "cfg/MCEval.C03.quick.cfg"}],
               "thorough": [{"module": "MCEval", "cfg": "cfg/MCEval.C03.thorough.cfg", "timeout": 3400}]},
        "drive": {"quick": [{"args": ["eval", "-for", "C03", "-exh", "1", "-exhmax", "1000", "-n", "2500", "-depth", "5",
                                      "-seed", "{seed}", "-progevery", "15"]}],
                  "thorough": [{"args": ["eval", "-for", "C03", "-exh", "2", "-exhmax", "40000", "-n", "40000", "-depth", "6",
                                         "-seed", "{seed}", "-progevery", "100"]}]},
        "judge": jeval(),
        "replay_args": ["eval", "-for", "C03", "-n", "0", "-progevery", "1"],
        "rule": "one evaluation = (source tree, option subset / cost map, binding of all variables); judged: the ordered log "
                "of VariableFetcher.Get and registered-operator calls (name, parameters, result) is a log of left-to-right "
                "short-circuit evaluation of the tree parsed back from the real Dump (Semantics!Match, with the permitted "
                "two-leaf relaxation under FastEvaluation); non-trivial = effects observed and something was skipped",
        "sample": sample_eval, "assumptions": EVAL_ASSUME,
    },
    "C10": {
        "mc": {"quick": [{"module": "MCFold", "cfg": "cfg/MCFold.quick.cfg"}],
               "thorough": [{"module": "MCFold", "cfg": "cfg/MCFold.thorough.cfg"}]},
        "drive": {"quick": [{"args": ["eval", "-for", "C10", "-n", "3000", "-depth", "4", "-seed", "{seed}", "-progevery", "15"]}],
                  "thorough": [{"args": ["eval", "-for", "C10", "-n", "80000", "-depth", "5", "-seed", "{seed}", "-progevery", "100"]}]},
        "judge": jeval(),
        "replay_args": ["eval", "-for", "C10", "-n", "0", "-progevery", "1"],
        "rule": "one evaluation = (source tree mixing constants, variables, built-in, stateless-declared p, undeclared f/g/h, "
                "option subset, binding), each evaluated 3 times; judged: compile-time calls only of p, Compile never fails, "
                "variables/undeclared operators survive wherever the permitted folding keeps them, every repetition performs "
                "the calls again, deferred failure = Den; non-trivial = constant folding changes the tree",
        "sample": sample_eval, "assumptions": EVAL_ASSUME,
    },
}
