package main

// A plain S-expression reader for Dump output (no semantics): turns the text Dump
// prints into a Tree, resolving atoms by shape only.

import (
	"fmt"
	"strconv"
	"strings"
)

func sprint(v interface{}) string { return fmt.Sprint(v) }

type sx struct {
	atom string
	str  bool
	list bool
	kids []*sx
}

func sxTokens(s string) ([]string, error) {
	var out []string
	rs := []rune(s)
	i := 0
	for i < len(rs) {
		c := rs[i]
		switch {
		case c == ' ' || c == '\n' || c == '\t' || c == '\r':
			i++
		case c == '(' || c == ')':
			out = append(out, string(c))
			i++
		case c == '"':
			// the lexer's rule: raw text up to the next double quote, no escapes
			j := i + 1
			for j < len(rs) && rs[j] != '"' {
				j++
			}
			if j >= len(rs) {
				return nil, fmt.Errorf("unterminated string in dump")
			}
			out = append(out, string(rs[i:j+1]))
			i = j + 1
		default:
			j := i
			for j < len(rs) && !strings.ContainsRune(" \n\t\r()", rs[j]) {
				j++
			}
			out = append(out, string(rs[i:j]))
			i = j
		}
	}
	return out, nil
}

func sxParse(toks []string, i *int) (*sx, error) {
	if *i >= len(toks) {
		return nil, fmt.Errorf("unexpected end of dump")
	}
	t := toks[*i]
	*i++
	if t == ")" {
		return nil, fmt.Errorf("unexpected )")
	}
	if t != "(" {
		return &sx{atom: t, str: strings.HasPrefix(t, `"`)}, nil
	}
	n := &sx{list: true}
	for {
		if *i >= len(toks) {
			return nil, fmt.Errorf("unterminated list in dump")
		}
		if toks[*i] == ")" {
			*i++
			return n, nil
		}
		k, err := sxParse(toks, i)
		if err != nil {
			return nil, err
		}
		n.kids = append(n.kids, k)
	}
}

func isIntAtom(s string) bool { _, err := strconv.ParseInt(s, 10, 64); return err == nil }

// dumpTree parses Dump output into a Tree.  vars: names that are variables.
func dumpTree(text string, vars map[string]bool) (*Tree, error) {
	toks, err := sxTokens(text)
	if err != nil {
		return nil, err
	}
	i := 0
	n, err := sxParse(toks, &i)
	if err != nil {
		return nil, err
	}
	if i != len(toks) {
		return nil, fmt.Errorf("trailing text in dump")
	}
	return sxTree(n, vars)
}

func sxTree(n *sx, vars map[string]bool) (*Tree, error) {
	if !n.list {
		switch {
		case n.str:
			return cst(n.atom[1 : len(n.atom)-1]), nil
		case n.atom == "true":
			return cst(true), nil
		case n.atom == "false":
			return cst(false), nil
		case isIntAtom(n.atom):
			v, _ := strconv.ParseInt(n.atom, 10, 64)
			return cst(v), nil
		default:
			return vr(n.atom), nil
		}
	}
	if len(n.kids) == 0 {
		return cst([]string{}), nil
	}
	h := n.kids[0]
	if !h.list && (h.str || isIntAtom(h.atom)) {
		// list literal
		if h.str {
			r := []string{}
			for _, k := range n.kids {
				if k.list || !k.str {
					return nil, fmt.Errorf("mixed list literal in dump")
				}
				r = append(r, k.atom[1:len(k.atom)-1])
			}
			return cst(r), nil
		}
		r := []int64{}
		for _, k := range n.kids {
			if k.list || !isIntAtom(k.atom) {
				return nil, fmt.Errorf("mixed list literal in dump")
			}
			v, _ := strconv.ParseInt(k.atom, 10, 64)
			r = append(r, v)
		}
		return cst(r), nil
	}
	if h.list {
		return nil, fmt.Errorf("list in head position in dump")
	}
	kids := []*Tree{}
	for _, k := range n.kids[1:] {
		t, err := sxTree(k, vars)
		if err != nil {
			return nil, err
		}
		kids = append(kids, t)
	}
	return op(h.atom, kids...), nil
}
