package main

// Family "layout" (C14): (a) arbitrary texts through the real lexer and the real
// formatter (1x, 2x); (b) valid expressions re-laid-out (white space, comments,
// minimal spacing, formatter output) and compiled: program and results compared.

import (
	"math/rand"
	"strings"
	"time"

	"github.com/onheap/eval"
)

func lexRec(cc *eval.Config, s string) M {
	var toks []eval.VerifToken
	var err error
	p := safely(func() M { toks, err = eval.VerifLex(cc, s); return nil })
	if p != nil {
		return M{"out": "panic", "toks": []interface{}{}, "msg": p["msg"]}
	}
	if err != nil {
		return M{"out": "err", "toks": []interface{}{}}
	}
	ts := []interface{}{}
	for _, t := range toks {
		ts = append(ts, M{"ty": t.Type, "tx": abstract(t.Val)})
	}
	return M{"out": "ok", "toks": ts}
}

var fmtHangs int

func fmtLine(id int, s string, infixCC, prefixCC *eval.Config) M {
	rec := M{"fam": "layout", "for": "C14", "kind": "fmt", "id": id, "src": s, "text": abstract(s)}
	var f1, f2 string
	// watchdog: a formatter that does not return within 5 s on three attempts is a hang (the spinning goroutines are
	// abandoned; after three hanging inputs the formatter is no longer called in this run)
	type fres struct {
		p      M
		f1, f2 string
	}
	var p M
	hung := false
	if fmtHangs >= 3 {
		hung = true
	}
	for attempt := 0; attempt < 3 && !hung; attempt++ {
		ch := make(chan fres, 1)
		go func() {
			var a, b string
			pp := safely(func() M {
				a = eval.IndentByParentheses(s)
				b = eval.IndentByParentheses(a)
				return nil
			})
			ch <- fres{pp, a, b}
		}()
		select {
		case r := <-ch:
			p, f1, f2 = r.p, r.f1, r.f2
			attempt = 3
		case <-time.After(5 * time.Second):
			if attempt == 2 {
				hung = true
				fmtHangs++
			}
		}
	}
	if hung {
		rec["fout"] = "hang"
		rec["f1"], rec["f2"] = []interface{}{}, []interface{}{}
		f1, f2 = s, s
	} else if p != nil {
		rec["fout"] = "panic"
		rec["f1"], rec["f2"] = []interface{}{}, []interface{}{}
	} else {
		rec["fout"] = "ok"
		rec["f1"], rec["f2"] = abstract(f1), abstract(f2)
	}
	rec["lex"] = lexRec(prefixCC, s)
	rec["lexi"] = lexRec(infixCC, s)
	rec["lexf1"] = lexRec(prefixCC, f1)
	rec["lexf2"] = lexRec(prefixCC, f2)
	rec["lexif1"] = lexRec(infixCC, f1)
	return rec
}

var spaceRunes = []string{" ", "\t", " ", "　", "\r\n", "\n", "  ", " \n "}

// tokensOf splits a rendered prefix expression into its token texts (rendering is ours:
// tokens are separated by single spaces or parentheses; string literals hold no quote).
func tokensOf(src string) []string {
	var toks []string
	rs := []rune(src)
	i := 0
	for i < len(rs) {
		c := rs[i]
		switch {
		case c == ' ':
			i++
		case c == '(' || c == ')':
			toks = append(toks, string(c))
			i++
		case c == '"':
			j := i + 1
			for rs[j] != '"' {
				j++
			}
			toks = append(toks, string(rs[i:j+1]))
			i = j + 1
		default:
			j := i
			for j < len(rs) && rs[j] != ' ' && rs[j] != '(' && rs[j] != ')' {
				j++
			}
			toks = append(toks, string(rs[i:j]))
			i = j
		}
	}
	return toks
}

func needsSpace(a, b string) bool {
	delim := func(s string) bool { return s == "(" || s == ")" }
	if delim(a) || delim(b) {
		return false
	}
	if strings.HasSuffix(a, `"`) && strings.HasPrefix(a, `"`) {
		return false // a closing quote ends the token
	}
	return true
}

func relayouts(r *rand.Rand, src string) []M {
	toks := tokensOf(src)
	join := func(sep func(i int) string) string {
		var sb strings.Builder
		for i, t := range toks {
			if i > 0 {
				sb.WriteString(sep(i))
			}
			sb.WriteString(t)
		}
		return sb.String()
	}
	out := []M{}
	// minimal spacing
	out = append(out, M{"how": "minimal", "text": join(func(i int) string {
		if needsSpace(toks[i-1], toks[i]) {
			return " "
		}
		return ""
	})})
	// random Unicode white space
	out = append(out, M{"how": "spaces", "text": spaceRunes[r.Intn(len(spaceRunes))] + join(func(i int) string {
		s := ""
		if needsSpace(toks[i-1], toks[i]) || r.Intn(2) == 0 {
			s = spaceRunes[r.Intn(len(spaceRunes))]
		}
		if r.Intn(4) == 0 {
			s += spaceRunes[r.Intn(len(spaceRunes))]
		}
		return s
	}) + spaceRunes[r.Intn(len(spaceRunes))]})
	// comments between tokens (incl. a directive AFTER the first token, which must be ignored)
	out = append(out, M{"how": "comments", "text": "; leading comment\n" + join(func(i int) string {
		switch r.Intn(5) {
		case 0:
			return " ; c (x) \"q\n"
		case 1:
			return "\n;;;; optimize:false\n"
		case 2:
			return " ;\n"
		}
		if needsSpace(toks[i-1], toks[i]) {
			return " "
		}
		return ""
	}) + " ; trailing, no newline"})
	// formatter output, once and three times
	var p M
	done := make(chan M, 1)
	go func() {
		var o []M
		pp := safely(func() M {
			f1 := eval.IndentByParentheses(src)
			o = append(o, M{"how": "format1", "text": f1})
			o = append(o, M{"how": "format3", "text": eval.IndentByParentheses(eval.IndentByParentheses(f1))})
			return nil
		})
		if pp == nil {
			pp = M{"ok": o}
		}
		done <- pp
	}()
	if fmtHangs >= 3 {
		p = M{"t": "to"}
	} else {
		select {
		case p = <-done:
			if o, ok := p["ok"]; ok {
				out = append(out, o.([]M)...)
				p = nil
			}
		case <-time.After(15 * time.Second):
			p = M{"t": "to"} // (the fmt line of the same source records the hang)
		}
	}
	if p != nil {
		// the formatter panicked: recorded as a re-layout that cannot be compiled (the fmt line of the
		// same source records the panic itself)
		out = append(out, M{"how": "format-panic", "text": "(formatter panicked)"})
	}
	return out
}

func compileObs(src string, mask int, envs []Env) M {
	c := compileVariant(src, ConfOpts{Mask: mask}, false)
	o := M{"cout": c.rec["cout"], "dump": "", "table": ""}
	if c.expr != nil {
		o["dump"], o["table"] = c.rec["dump"], c.rec["table"]
		rs := []interface{}{}
		for _, env := range envs {
			res := safely(func() M {
				v, err := c.expr.Eval(&eval.Ctx{VariableFetcher: &Fetcher{Vals: env}})
				return outcome(v, err)
			})
			rs = append(rs, res)
		}
		o["res"] = rs
	} else {
		o["res"] = []interface{}{}
	}
	return o
}

var strangeStrings = []string{"a  b", "a(b", "a)b", "a;b", " a", "a ", "(", ";", "a\tb", "a b", "[x]", "a,b", "  ", "x; y\n z",
	"a\\", "\\", "C:\\", "\\\\", "a\\b", "", "é  é", ")(", ";;;; optimize:false"}

func famLayout() {
	r := rand.New(rand.NewSource(*fSeed))
	id := *fIDBase - 1
	infixCC := eval.NewConfig(eval.EnableInfixNotation)
	prefixCC := eval.NewConfig()
	seen := map[string]bool{}
	emitFmt := func(s string) {
		if seen[s] {
			return
		}
		seen[s] = true
		id++
		emit(fmtLine(id, s, infixCC, prefixCC))
	}
	// (a1) exhaustive short texts
	alpha := []string{"(", ")", "[", ",", ";", "Q", "SP", "NL", "a", "1", "NBSP", "!"}
	var rec func(prefix []string, n int)
	rec = func(prefix []string, n int) {
		emitFmt(concretise(prefix))
		if n == 0 {
			return
		}
		for _, c := range alpha {
			rec(append(append([]string{}, prefix...), c), n-1)
		}
	}
	rec(nil, *fExh)
	// (a2) random longer texts over the whole table
	var all []string
	for k := range charTable {
		all = append(all, k)
	}
	sortStrings(all)
	heavy := []string{"(", ")", "SP", "NL", ";", "Q", "a", "1", "Agrave", "Ni"}
	for i := 0; i < *fN; i++ {
		n := 4 + r.Intn(14)
		m := make([]string, n)
		for j := range m {
			if r.Intn(3) == 0 {
				m[j] = all[r.Intn(len(all))]
			} else {
				m[j] = heavy[r.Intn(len(heavy))]
			}
		}
		emitFmt(concretise(m))
	}
	// (a3) every ordered pair of layout-sensitive literals side by side (what one literal does to the
	// formatter's / lexer's state decides how the next one is treated)
	for _, s1 := range strangeStrings {
		for _, s2 := range strangeStrings {
			emitFmt("(f \"" + s1 + "\" \"" + s2 + "\")")
			if r.Intn(4) == 0 {
				emitFmt("(= s \"" + s1 + "\") ; c \"" + s2 + "\"\n(g \"" + s2 + "\")")
			}
		}
	}
	// (a4) deep nesting (indentation grows with depth)
	for _, d := range []int{31, 32, 33, 40, 70, 130} {
		emitFmt(strings.Repeat("(", d) + "x" + strings.Repeat(")", d))
		emitFmt(strings.Repeat("(not ", d) + "x" + strings.Repeat(")", d))
		emitFmt(strings.Repeat("(f [", d) + "1" + strings.Repeat("])", d) + " ; c")
	}
	// (a5) bytes that are not valid UTF-8 (Latin-1 text, truncated sequences, surrogate halves): the lexer reads each
	// such byte as one replacement rune, so for tokens and comments it is just another rune (model character "U")
	bad := []string{"\xe9", "\xff", "\xc3", "\xed\xa0\x80", "\xf0\x9f", "\x80"}
	for i := 0; i < *fN/6+40; i++ {
		b1, b2 := bad[r.Intn(len(bad))], bad[r.Intn(len(bad))]
		switch i % 5 {
		case 0:
			emitFmt("(= s \"caf" + b1 + "\") ;; c" + b2 + " (x)\n(and y)")
		case 1:
			emitFmt("(and ;; " + b1 + b2 + " x\n  (= s \"" + b1 + "  b\") (f \"(" + b2 + "\"))")
		case 2:
			emitFmt("(f " + b1 + " \"a" + b2 + "\" ; t" + b1 + "\n \"  \")")
		default:
			n := 4 + r.Intn(12)
			s := ""
			for j := 0; j < n; j++ {
				if r.Intn(4) == 0 {
					s += bad[r.Intn(len(bad))]
				} else {
					s += concretise([]string{heavy[r.Intn(len(heavy))]})
				}
			}
			emitFmt(s)
		}
	}
	// (b) valid expressions with layout-sensitive string literals, re-laid-out
	g := &gen{r: r, c: GenCfg{Custom: true, Alias: true, MaxKids: 4, Lists: true, Strings: true, Consts: true}}
	for i := 0; i < *fN/4; i++ {
		t, _ := g.tree("b", 1+r.Intn(*fDepth))
		if i%25 == 24 {
			t = g.spine("b", 30+r.Intn(20)) // deep enough for any fixed indentation budget
		}
		if len(t.Kids) == 0 {
			continue
		}
		// plant strange string literals
		if r.Intn(2) == 0 {
			lit := strangeStrings[r.Intn(len(strangeStrings))]
			t = op("and", op("=", vr("s"), cst(lit)), t)
			if r.Intn(2) == 0 {
				t = op("and", op("in", vr("s"), cst([]string{strangeStrings[r.Intn(len(strangeStrings))], lit})), t)
			}
		}
		src := t.Src()
		if seen[src] {
			continue
		}
		emitFmt(src)
		id++
		myid := id
		mask := r.Intn(16)
		envs := []Env{randEnv(r), randEnv(r)}
		envs[0]["s"] = "a  b"
		base := compileObs(src, mask, envs)
		rl := []interface{}{}
		for _, v := range relayouts(r, src) {
			o := compileObs(v["text"].(string), mask, envs)
			o["how"], o["text"] = v["how"], v["text"]
			rl = append(rl, o)
			emitFmt(v["text"].(string))
		}
		emit(M{"fam": "layout", "for": "C14", "kind": "relayout", "id": myid, "src": src, "m": maskRec(mask), "base": base, "variants": rl})
	}
}

func sortStrings(a []string) {
	for i := range a {
		for j := i + 1; j < len(a); j++ {
			if a[j] < a[i] {
				a[i], a[j] = a[j], a[i]
			}
		}
	}
}

func init() { families["layout"] = famLayout }
