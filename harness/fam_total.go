package main

// Family "total" (C06): Compile on arbitrary texts (every short text over an alphabet,
// every short token sequence, mutations of valid expressions, huge and non-ASCII
// inputs) in both notations, and Eval / TryEval / Dump / DumpTable on whatever
// compiles, all under recover().  Also single-operator calls over the whole value
// universe (lists, sets, nil, wrong types).

import (
	"math/rand"
	"strings"
	"time"

	"github.com/onheap/eval"
)

type totMode struct {
	Infix bool
	Undef bool
}

var totModes = []totMode{{false, false}, {false, true}, {true, false}, {true, true}}

var totEnvs = []Env{
	{"x": true, "y": false, "z": true, "n": int64(2), "m": int64(0), "s": "a", "l": []int64{1, 2}, "a": int64(1), "q": true},
	{"x": []int64{1}, "y": []int64{1}, "z": []string{"a"}, "n": []int64{2}, "m": []string{}, "s": []string{"a"}, "l": map[int64]struct{}{1: {}}, "a": []int64{1}, "q": []int64{}},
	{"x": nil, "y": int64(1), "z": "s", "n": nil, "m": true, "s": nil, "l": nil, "a": nil},
}

// classOf runs f under recover with a watchdog and classifies the outcome.
func classOf(f func() (interface{}, error)) M {
	done := make(chan M, 1)
	go func() {
		done <- safely(func() M {
			v, err := f()
			if err != nil {
				return M{"t": "e", "v": "err"}
			}
			_ = v
			return M{"t": "ok", "v": "ok"}
		})
	}()
	select {
	case r := <-done:
		return r
	case <-time.After(20 * time.Second):
		return M{"t": "to", "v": "timeout"}
	}
}

func totalObs(text string, mode totMode, wantTree bool) M {
	l := &Log{Phase: "compile"}
	cc, _ := newConf(ConfOpts{Mask: 15, Undefined: mode.Undef, Infix: mode.Infix}, l)
	if mode.Undef {
		// registered variables too, so that both resolution paths are exercised
		for _, v := range varNames {
			eval.GetOrRegisterKey(cc, v)
		}
	}
	o := M{"infix": mode.Infix, "undef": mode.Undef}
	var e *eval.Expr
	var err error
	p := safely(func() M { e, err = eval.Compile(cc, text); return nil })
	switch {
	case p != nil:
		o["cout"], o["csite"], o["cmsg"] = "panic", p["v"], p["msg"]
	case err != nil && e != nil:
		o["cout"] = "both"
	case err != nil:
		o["cout"] = "err"
	case e == nil:
		o["cout"] = "nil"
	default:
		o["cout"] = "ok"
	}
	calls := []interface{}{}
	o["dok"] = false
	if e != nil && err == nil {
		l.Phase = "eval"
		// the unoptimized twin gives the parse tree through Dump
		if wantTree {
			cc0, _ := newConf(ConfOpts{Mask: 0, Undefined: mode.Undef, Infix: mode.Infix}, &Log{Phase: "compile"})
			if mode.Undef {
				for _, v := range varNames {
					eval.GetOrRegisterKey(cc0, v)
				}
			}
			pt := safely(func() M {
				e0, err0 := eval.Compile(cc0, text)
				if err0 != nil {
					return M{"t": "e"}
				}
				dt, derr := dumpTree(eval.Dump(e0), nil)
				if derr != nil {
					return M{"t": "e"}
				}
				modelStrings(dt)
				return M{"t": "ok", "tree": dt}
			})
			if pt["t"] == "ok" {
				o["dok"], o["dtree"] = true, pt["tree"]
			}
		}
		for ei, env := range totEnvs {
			for _, api := range []string{"eval", "tryeval"} {
				api := api
				c := classOf(func() (interface{}, error) {
					ctx := &eval.Ctx{VariableFetcher: &Fetcher{Vals: env}}
					if api == "eval" {
						return e.Eval(ctx)
					}
					return e.TryEval(ctx)
				})
				if c["t"] != "ok" && c["t"] != "e" {
					calls = append(calls, M{"api": api, "e": ei + 1, "out": c["t"], "site": c["v"], "msg": c["msg"]})
				}
			}
		}
		for _, api := range []string{"dump", "table", "tablefull"} {
			api := api
			c := classOf(func() (interface{}, error) {
				switch api {
				case "dump":
					return eval.Dump(e), nil
				case "table":
					return eval.DumpTable(e, true), nil
				}
				return eval.DumpTable(e, false), nil
			})
			if c["t"] != "ok" {
				calls = append(calls, M{"api": api, "e": 0, "out": c["t"], "site": c["v"], "msg": c["msg"]})
			}
		}
	}
	o["bad"] = calls
	return o
}

func famTotal() {
	r := rand.New(rand.NewSource(*fSeed))
	id := *fIDBase - 1
	seen := map[string]bool{}
	emitText := func(text string, kind string, wantTree bool) {
		if seen[text] {
			return
		}
		seen[text] = true
		id++
		rec := M{"fam": "total", "for": "C06", "kind": "text", "src": kind, "id": id, "text": abstract(text), "len": len([]rune(text)), "known": true}
		for _, c := range abstractS(text) {
			if c == "U" {
				rec["known"] = false
			}
		}
		if kind == "special" {
			rec["known"] = false // wide integers, invalid UTF-8: outside the model's character table
		}
		if len(text) > 200 {
			rec["text"], rec["known"] = []interface{}{}, false
			rec["srctext"] = text[:60] + "..."
		} else {
			rec["srctext"] = text
		}
		ms := []interface{}{}
		for _, m := range totModes {
			ms = append(ms, totalObs(text, m, wantTree))
		}
		rec["modes"] = ms
		emit(rec)
	}
	// (a) every text up to the exhaustive length
	alpha := []string{"(", ")", "[", "]", ",", ";", "Q", "SP", "a", "x", "1", "+", "!", "f"}
	var rec func(prefix []string, n int)
	rec = func(prefix []string, n int) {
		emitText(concretise(prefix), "chars", true)
		if n == 0 {
			return
		}
		for _, c := range alpha {
			rec(append(append([]string{}, prefix...), c), n-1)
		}
	}
	rec(nil, *fExh)
	// (b) token sequences (rendered with single spaces), one token longer than (a) can reach
	toks := []string{"(", ")", "[", "]", ",", "1", `"a"`, "x", "+", "*", "!", "==", "&&", "f", "if", "q", "-2", "true"}
	var rect func(prefix []string, n int)
	rect = func(prefix []string, n int) {
		if len(prefix) > 0 {
			emitText(strings.Join(prefix, " "), "tokens", true)
		}
		if n == 0 {
			return
		}
		for _, c := range toks {
			rect(append(append([]string{}, prefix...), c), n-1)
		}
	}
	rect(nil, *fExh-1)
	// random longer token sequences
	for i := 0; i < *fN; i++ {
		n := *fExh + r.Intn(6)
		var p []string
		for j := 0; j < n; j++ {
			p = append(p, toks[r.Intn(len(toks))])
		}
		emitText(strings.Join(p, []string{" ", "", " "}[r.Intn(3)]), "tokens", true)
	}
	// (c) mutations of valid expressions: truncation at every rune boundary, token deletion /
	// duplication / swap, unbalanced brackets
	g := &gen{r: r, c: GenCfg{Custom: true, Alias: true, MaxKids: 4, Lists: true, Strings: true, Consts: true, FailVar: true, Failing: true, Wrong: true}}
	for i := 0; i < *fN/20+1; i++ {
		t, _ := g.tree("b", 1+r.Intn(*fDepth))
		if len(t.Kids) == 0 {
			continue
		}
		src := t.Src()
		emitText(src, "valid", true)
		rs := []rune(src)
		for k := 0; k <= len(rs); k++ {
			emitText(string(rs[:k]), "truncated", false)
		}
		tk := tokensOf(src)
		for k := 0; k < 12 && len(tk) > 2; k++ {
			m := append([]string{}, tk...)
			a, b := r.Intn(len(m)), r.Intn(len(m))
			switch r.Intn(4) {
			case 0:
				m = append(m[:a], m[a+1:]...)
			case 1:
				m = append(m[:a], append([]string{m[a]}, m[a:]...)...)
			case 2:
				m[a], m[b] = m[b], m[a]
			case 3:
				m[a] = []string{"(", ")", "[", "]", ","}[r.Intn(5)]
			}
			emitText(strings.Join(m, " "), "mutated", false)
		}
	}
	// (d) huge, deep, non-ASCII and invalid-UTF-8 inputs
	for _, s := range []string{
		"99999999999999999999", "(+ 1 99999999999999999999)", "(+ 9223372036854775807 1)", "(- -9223372036854775808 1)",
		strings.Repeat("(", 100000), strings.Repeat(")", 100000), strings.Repeat("(+ 1 ", 5000) + "1" + strings.Repeat(")", 5000),
		"(= x \"" + strings.Repeat("é", 50000) + "\")", "(+ 1 2)" + strings.Repeat(" ", 100000), strings.Repeat(";", 100000),
		"\xff\xfe(+ 1 2)", "(+ 1 \xc3\x28)", "(= s \"\xed\xa0\x80\")", "(＋ 1 2)", "(+ １ 2)", "(and　x　y)", "\x00", "(+ 1 2)\x00",
		strings.Repeat("1 + ", 20000) + "1", strings.Repeat("!", 1000) + "x", "f(" + strings.Repeat("1,", 200) + "1)",
	} {
		emitText(s, "special", false)
	}
	// (e) single-operator calls over the whole value universe
	ops := []string{"add", "sub", "mul", "div", "mod", "+", "-", "*", "/", "%", "and", "or", "xor", "not", "&", "|", "!",
		"eq", "ne", "gt", "lt", "ge", "le", "=", "!=", ">", "<", ">=", "<=", "between", "in", "overlap",
		"date", "datetime", "to_date", "to_datetime", "t_time", "t_date", "td_time", "td_date", "version", "t_version", "to_version",
		"==", "&&", "||"}
	universe := []interface{}{true, false, int64(0), int64(1), int64(-1), "a", "", "1.2.3", "2020-01-02",
		[]int64{1, 2}, []int64{}, []string{"a"}, []string{}, map[int64]struct{}{1: {}}, map[string]struct{}{"a": {}}, nil, eval.DNE,
		int64(-9223372036854775808), int64(9223372036854775807)}
	for _, opn := range ops {
		for arity := 0; arity <= 4; arity++ {
			ncase := 1
			for k := 0; k < arity; k++ {
				ncase *= len(universe)
			}
			limit := 40
			if *fTier == "thorough" {
				limit = 600
			}
			for c := 0; c < ncase && c < limit; c++ {
				idxs := make([]int, arity)
				if ncase <= limit {
					x := c
					for k := range idxs {
						idxs[k] = x % len(universe)
						x /= len(universe)
					}
				} else {
					for k := range idxs {
						idxs[k] = r.Intn(len(universe))
					}
				}
				env := Env{}
				names := []string{"x", "y", "z", "n"}
				src := "(" + opn
				ps := []interface{}{}
				for k, ix := range idxs {
					env[names[k]] = universe[ix]
					src += " " + names[k]
					ps = append(ps, tv(universe[ix]))
				}
				src += ")"
				id++
				rec := M{"fam": "total", "for": "C06", "kind": "op", "id": id, "op": opn, "ps": ps, "src": src}
				outs := []interface{}{}
				for _, mask := range []int{0, 4} { // plain and fast-operator path
					l := &Log{Phase: "compile"}
					cc, _ := newConf(ConfOpts{Mask: mask}, l)
					e, err := eval.Compile(cc, src)
					if err != nil {
						outs = append(outs, M{"t": "ce", "v": "compile-error"})
						continue
					}
					res := safely(func() M {
						v, err := e.Eval(&eval.Ctx{VariableFetcher: &Fetcher{Vals: env}})
						return outcome(v, err)
					})
					outs = append(outs, res)
				}
				rec["outs"] = outs
				emit(rec)
			}
		}
	}
}

func init() { families["total"] = famTotal }

// modelStrings rewrites string constants of a tree as the concatenation of their model
// character names (Parser.tla!Concat), so that trees can be compared with the model's.
func modelStrings(t *Tree) {
	if t.K == "c" {
		m := t.V.(M)
		switch m["t"] {
		case "s":
			m["v"] = strings.Join(abstractS(m["v"].(string)), "")
		case "sl":
			a := m["v"].([]interface{})
			for i := range a {
				a[i] = strings.Join(abstractS(a[i].(string)), "")
			}
		}
	}
	for _, k := range t.Kids {
		modelStrings(k)
	}
}
