package main

// Family "total" (C06): Compile on arbitrary texts (every short text over an alphabet,
// every short token sequence, mutations of valid expressions, huge and non-ASCII
// inputs) in both notations, and Eval / TryEval / Dump / DumpTable on whatever
// compiles, all under recover().  Also single-operator calls over the whole value
// universe (lists, sets, nil, wrong types).

import (
	"bufio"
	"fmt"
	"math/rand"
	"os"
	"strings"
	"time"

	"github.com/onheap/eval"
)

type totMode struct {
	Infix bool
	Undef bool
}

var totModes = []totMode{{false, false}, {false, true}, {true, false}, {true, true}}

var totEnvs = []Env{
	{"x": true, "y": false, "z": true, "n": int64(2), "m": int64(0), "s": "a", "l": []int64{1, 2}, "a": int64(1), "q": true},
	{"x": []int64{1}, "y": []int64{1}, "z": []string{"a"}, "n": []int64{2}, "m": []string{}, "s": []string{"a"}, "l": map[int64]struct{}{1: {}}, "a": []int64{1}, "q": []int64{}},
	{"x": nil, "y": int64(1), "z": "s", "n": nil, "m": true, "s": nil, "l": nil, "a": nil},
}

// classOf runs f under recover with a watchdog and classifies the outcome.
func classOf(f func() (interface{}, error)) M {
	done := make(chan M, 1)
	go func() {
		done <- safely(func() M {
			v, err := f()
			if err != nil {
				return M{"t": "e", "v": "err"}
			}
			_ = v
			return M{"t": "ok", "v": "ok"}
		})
	}()
	select {
	case r := <-done:
		return r
	case <-time.After(20 * time.Second):
		return M{"t": "to", "v": "timeout"}
	}
}

// deepMasks: for well-formed sources the evaluation entry points are also exercised under these option
// subsets (each optimizer alone, none, all but one), panics and hangs only
var deepMasks = []int{0, 1, 2, 4, 8, 7, 11, 13, 14}
var totalDeep bool

func totalObs(text string, mode totMode, wantTree bool) M {
	l := &Log{Phase: "compile"}
	cc, _ := newConf(ConfOpts{Mask: 15, Undefined: mode.Undef, Infix: mode.Infix}, l)
	if mode.Undef {
		// registered variables too, so that both resolution paths are exercised
		for _, v := range varNames {
			eval.GetOrRegisterKey(cc, v)
		}
	}
	o := M{"infix": mode.Infix, "undef": mode.Undef}
	var e *eval.Expr
	var err error
	p := safely(func() M { e, err = eval.Compile(cc, text); return nil })
	switch {
	case p != nil:
		o["cout"], o["csite"], o["cmsg"] = "panic", p["v"], p["msg"]
	case err != nil && e != nil:
		o["cout"] = "both"
	case err != nil:
		o["cout"] = "err"
	case e == nil:
		o["cout"] = "nil"
	default:
		o["cout"] = "ok"
	}
	calls := []interface{}{}
	o["dok"] = false
	if e != nil && err == nil {
		l.Phase = "eval"
		// the unoptimized twin gives the parse tree through Dump
		if wantTree {
			cc0, _ := newConf(ConfOpts{Mask: 0, Undefined: mode.Undef, Infix: mode.Infix}, &Log{Phase: "compile"})
			if mode.Undef {
				for _, v := range varNames {
					eval.GetOrRegisterKey(cc0, v)
				}
			}
			pt := safely(func() M {
				e0, err0 := eval.Compile(cc0, text)
				if err0 != nil {
					return M{"t": "e"}
				}
				dt, derr := dumpTree(eval.Dump(e0), nil)
				if derr != nil {
					return M{"t": "e"}
				}
				modelStrings(dt)
				return M{"t": "ok", "tree": dt}
			})
			if pt["t"] == "ok" {
				o["dok"], o["dtree"] = true, pt["tree"]
			}
		}
		for ei, env := range totEnvs {
			for _, api := range []string{"eval", "tryeval"} {
				api := api
				c := classOf(func() (interface{}, error) {
					ctx := &eval.Ctx{VariableFetcher: &Fetcher{Vals: env}}
					if api == "eval" {
						return e.Eval(ctx)
					}
					return e.TryEval(ctx)
				})
				if c["t"] != "ok" && c["t"] != "e" {
					calls = append(calls, M{"api": api, "e": ei + 1, "out": c["t"], "site": c["v"], "msg": c["msg"]})
				}
			}
		}
		if totalDeep {
			for _, mask := range deepMasks {
				ccm, _ := newConf(ConfOpts{Mask: mask, Undefined: mode.Undef, Infix: mode.Infix}, &Log{Phase: "compile"})
				if mode.Undef {
					for _, v := range varNames {
						eval.GetOrRegisterKey(ccm, v)
					}
				}
				var em *eval.Expr
				pc := classOf(func() (interface{}, error) {
					var err error
					em, err = eval.Compile(ccm, text)
					return nil, err
				})
				if pc["t"] != "ok" && pc["t"] != "e" {
					calls = append(calls, M{"api": fmt.Sprint("compile@", mask), "e": 0, "out": pc["t"], "site": pc["v"], "msg": pc["msg"]})
				}
				if em == nil {
					continue
				}
				for ei, env := range totEnvs {
					for _, api := range []string{"eval", "tryeval", "evalbool"} {
						api := api
						c := classOf(func() (interface{}, error) {
							ctx := &eval.Ctx{VariableFetcher: &Fetcher{Vals: env}}
							switch api {
							case "eval":
								return em.Eval(ctx)
							case "evalbool":
								return em.EvalBool(ctx)
							}
							return em.TryEval(ctx)
						})
						if c["t"] != "ok" && c["t"] != "e" {
							calls = append(calls, M{"api": fmt.Sprint(api, "@", mask), "e": ei + 1, "out": c["t"], "site": c["v"], "msg": c["msg"]})
						}
					}
				}
			}
		}
		for _, api := range []string{"dump", "table", "tablefull"} {
			api := api
			c := classOf(func() (interface{}, error) {
				switch api {
				case "dump":
					return eval.Dump(e), nil
				case "table":
					return eval.DumpTable(e, true), nil
				}
				return eval.DumpTable(e, false), nil
			})
			if c["t"] != "ok" {
				calls = append(calls, M{"api": api, "e": 0, "out": c["t"], "site": c["v"], "msg": c["msg"]})
			}
		}
	}
	o["bad"] = calls
	return o
}

func famTotal() {
	r := rand.New(rand.NewSource(*fSeed))
	id := *fIDBase - 1
	seen := map[string]bool{}
	emitText := func(text string, kind string, wantTree bool) {
		if seen[text] {
			return
		}
		seen[text] = true
		id++
		rec := M{"fam": "total", "for": "C06", "kind": "text", "src": kind, "id": id, "text": abstract(text), "len": len([]rune(text)), "known": true}
		for _, c := range abstractS(text) {
			if c == "U" {
				rec["known"] = false
			}
		}
		if kind == "special" {
			rec["known"] = false // wide integers, invalid UTF-8: outside the model's character table
		}
		if len(text) > 200 {
			rec["text"], rec["known"] = []interface{}{}, false
			rec["srctext"] = text[:60] + "..."
		} else {
			rec["srctext"] = text
		}
		ms := []interface{}{}
		for _, m := range totModes {
			ms = append(ms, totalObs(text, m, wantTree))
		}
		rec["modes"] = ms
		emit(rec)
	}
	// (0) token sequences generated by TLC (MCParse!EmitRisky): every short sequence on which the
	// parser model reaches one of its bounds checks
	if *fCases != "" {
		if f, err := os.Open(*fCases); err == nil {
			sc := bufio.NewScanner(f)
			for sc.Scan() {
				if ln := sc.Text(); strings.HasPrefix(ln, "CASE ") {
					emitText(ln[5:], "guards", true)
				}
			}
			f.Close()
		}
	}
	// (a) every text up to the exhaustive length
	alpha := []string{"(", ")", "[", "]", ",", ";", "Q", "SP", "a", "x", "1", "+", "!", "f"}
	var rec func(prefix []string, n int)
	rec = func(prefix []string, n int) {
		emitText(concretise(prefix), "chars", true)
		if n == 0 {
			return
		}
		for _, c := range alpha {
			rec(append(append([]string{}, prefix...), c), n-1)
		}
	}
	rec(nil, *fExh)
	// (b) token sequences (rendered with single spaces), one token longer than (a) can reach
	toks := []string{"(", ")", "[", "]", ",", "1", `"a"`, "x", "+", "*", "!", "==", "&&", "f", "if", "q", "-2", "true"}
	var rect func(prefix []string, n int)
	rect = func(prefix []string, n int) {
		if len(prefix) > 0 {
			emitText(strings.Join(prefix, " "), "tokens", true)
		}
		if n == 0 {
			return
		}
		for _, c := range toks {
			rect(append(append([]string{}, prefix...), c), n-1)
		}
	}
	rect(nil, *fExh-1)
	// random longer token sequences
	for i := 0; i < *fN; i++ {
		n := *fExh + r.Intn(6)
		var p []string
		for j := 0; j < n; j++ {
			p = append(p, toks[r.Intn(len(toks))])
		}
		emitText(strings.Join(p, []string{" ", "", " "}[r.Intn(3)]), "tokens", true)
	}
	// (c) mutations of valid expressions: truncation at every rune boundary, token deletion /
	// duplication / swap, unbalanced brackets
	g := &gen{r: r, c: GenCfg{Custom: true, Alias: true, MaxKids: 4, Lists: true, Strings: true, Consts: true, FailVar: true, Failing: true, Wrong: true}}
	for i := 0; i < *fN/20+1; i++ {
		t, _ := g.tree("b", 1+r.Intn(*fDepth))
		if len(t.Kids) == 0 {
			continue
		}
		src := t.Src()
		totalDeep = true
		emitText(src, "valid", true)
		totalDeep = false
		rs := []rune(src)
		for k := 0; k <= len(rs); k++ {
			emitText(string(rs[:k]), "truncated", false)
		}
		tk := tokensOf(src)
		for k := 0; k < 12 && len(tk) > 2; k++ {
			m := append([]string{}, tk...)
			a, b := r.Intn(len(m)), r.Intn(len(m))
			switch r.Intn(4) {
			case 0:
				m = append(m[:a], m[a+1:]...)
			case 1:
				m = append(m[:a], append([]string{m[a]}, m[a:]...)...)
			case 2:
				m[a], m[b] = m[b], m[a]
			case 3:
				m[a] = []string{"(", ")", "[", "]", ","}[r.Intn(5)]
			}
			emitText(strings.Join(m, " "), "mutated", false)
		}
	}
	// (d) huge, deep, non-ASCII and invalid-UTF-8 inputs
	for _, s := range []string{
		"99999999999999999999", "(+ 1 99999999999999999999)", "(+ 9223372036854775807 1)", "(- -9223372036854775808 1)",
		strings.Repeat("(", 100000), strings.Repeat(")", 100000), strings.Repeat("(+ 1 ", 5000) + "1" + strings.Repeat(")", 5000),
		"(= x \"" + strings.Repeat("é", 50000) + "\")", "(+ 1 2)" + strings.Repeat(" ", 100000), strings.Repeat(";", 100000),
		"\xff\xfe(+ 1 2)", "(+ 1 \xc3\x28)", "(= s \"\xed\xa0\x80\")", "(＋ 1 2)", "(+ １ 2)", "(and　x　y)", "\x00", "(+ 1 2)\x00",
		strings.Repeat("1 + ", 20000) + "1", strings.Repeat("!", 1000) + "x", "f(" + strings.Repeat("1,", 200) + "1)",
	} {
		emitText(s, "special", false)
	}
	// (f) well-formed sources with a shape: wide same-kind groups that only ReduceNesting makes too wide,
	// reserved words of the engine as string literals and as variable names in every operand position,
	// long spines
	totalDeep = true
	fanOf := func(name, v string, n int) string {
		return "(" + name + strings.Repeat(" "+v, n) + ")"
	}
	for _, ab := range [][2]int{{100, 100}, {64, 64}, {127, 1}, {126, 1}, {127, 127}, {3, 125}} {
		for _, nm := range [][2]string{{"and", "and"}, {"or", "||"}, {"&&", "&"}} {
			emitText("("+nm[0]+" "+fanOf(nm[1], "x", ab[0])+" "+fanOf(nm[0], "y", ab[1])+")", "shapes", false)
			emitText("(not ("+nm[0]+" z "+fanOf(nm[1], "x", ab[0])+" "+fanOf(nm[0], "y", ab[1])+"))", "shapes", false)
			emitText("(if ("+nm[0]+" "+fanOf(nm[1], "x", ab[0])+" "+fanOf(nm[0], "y", ab[1])+") 1 2)", "shapes", false)
		}
	}
	for _, kw := range []string{"fi", "if", "DNE", "true", "false", "and", "or", "not", "eq", "nil", "K", "KT", "optimize"} {
		for _, form := range []string{`"` + kw + `"`, kw} {
			for _, tmpl := range []string{
				"(not (and x (eq s @ s)))", "(or (and y (eq @ s s) x) z)", "(and x (eq s s @) y)", "(if (eq @ s) (and x (eq s @ s) y) z)",
				"(and (in @ (\"a\" \"fi\")) x)", "(or x (if y (eq s @) (ne @ s)))", "(and x (or y (eq s @ s s)) (not z))", "(eq @ @ @)",
			} {
				emitText(strings.ReplaceAll(tmpl, "@", form), "shapes", false)
			}
		}
	}
	for _, d := range []int{8, 9, 16, 17, 33, 200} {
		emitText(strings.Repeat("(and x (or y ", d)+"z"+strings.Repeat("))", d), "shapes", false)
		emitText(strings.Repeat("(if x y ", d)+"z"+strings.Repeat(")", d), "shapes", false)
		emitText(strings.Repeat("(+ n (if x ", d)+"1"+strings.Repeat(" 2))", d), "shapes", false)
	}
	totalDeep = false
	// (g) contexts built by the library for key layouts at the edges of the key type
	for _, keys := range [][]int{{0, 1}, {1, 255}, {1, 256}, {32766, 2}, {32767, 2}, {32767, 32766}, {-32768, 1}, {-1, 0}, {-2, -1}, {255, 0}, {1000, 2000}} {
		id++
		cc := eval.NewConfig()
		cc.VariableKeyMap["x"], cc.VariableKeyMap["n"] = eval.VariableKey(keys[0]), eval.VariableKey(keys[1])
		vals := map[string]interface{}{"x": true, "n": 3}
		bad := []interface{}{}
		note := func(api string, c M) {
			if c["t"] != "ok" && c["t"] != "e" {
				bad = append(bad, M{"api": api, "e": 0, "out": c["t"], "site": c["v"], "msg": c["msg"]})
			}
		}
		var ctx *eval.Ctx
		note("NewCtxFromVars", classOf(func() (interface{}, error) { ctx = eval.NewCtxFromVars(cc, vals); return nil, nil }))
		e, err := eval.Compile(cc, "(and x (> n 0))")
		if err == nil && ctx != nil {
			note("eval", classOf(func() (interface{}, error) { return e.Eval(ctx) }))
			note("tryeval", classOf(func() (interface{}, error) { return e.TryEval(ctx) }))
		}
		note("Eval+ExtendConf", classOf(func() (interface{}, error) { return eval.Eval("(and x (> n 0))", vals, eval.ExtendConf(cc)) }))
		note("Eval", classOf(func() (interface{}, error) { return eval.Eval("(and x (> n 0))", vals) }))
		emit(M{"fam": "total", "for": "C06", "kind": "ctx", "id": id, "src": fmt.Sprint("library context for keys ", keys), "bad": bad, "ncalls": 5})
	}
	// (e) single-operator calls over the whole value universe
	ops := []string{"add", "sub", "mul", "div", "mod", "+", "-", "*", "/", "%", "and", "or", "xor", "not", "&", "|", "!",
		"eq", "ne", "gt", "lt", "ge", "le", "=", "!=", ">", "<", ">=", "<=", "between", "in", "overlap",
		"date", "datetime", "to_date", "to_datetime", "t_time", "t_date", "td_time", "td_date", "version", "t_version", "to_version",
		"==", "&&", "||"}
	universe := []interface{}{true, false, int64(0), int64(1), int64(-1), "a", "", "1.2.3", "2020-01-02",
		[]int64{1, 2}, []int64{}, []string{"a"}, []string{}, map[int64]struct{}{1: {}}, map[string]struct{}{"a": {}}, nil, eval.DNE,
		int64(-9223372036854775808), int64(9223372036854775807)}
	for _, opn := range ops {
		for arity := 0; arity <= 4; arity++ {
			ncase := 1
			for k := 0; k < arity; k++ {
				ncase *= len(universe)
			}
			limit := 40
			if *fTier == "thorough" {
				limit = 600
			}
			for c := 0; c < ncase && c < limit; c++ {
				idxs := make([]int, arity)
				if ncase <= limit {
					x := c
					for k := range idxs {
						idxs[k] = x % len(universe)
						x /= len(universe)
					}
				} else {
					for k := range idxs {
						idxs[k] = r.Intn(len(universe))
					}
				}
				env := Env{}
				names := []string{"x", "y", "z", "n"}
				src := "(" + opn
				ps := []interface{}{}
				for k, ix := range idxs {
					env[names[k]] = universe[ix]
					src += " " + names[k]
					ps = append(ps, tv(universe[ix]))
				}
				src += ")"
				id++
				rec := M{"fam": "total", "for": "C06", "kind": "op", "id": id, "op": opn, "ps": ps, "src": src}
				outs := []interface{}{}
				for _, mask := range []int{0, 4} { // plain and fast-operator path
					l := &Log{Phase: "compile"}
					cc, _ := newConf(ConfOpts{Mask: mask}, l)
					e, err := eval.Compile(cc, src)
					if err != nil {
						outs = append(outs, M{"t": "ce", "v": "compile-error"})
						continue
					}
					res := safely(func() M {
						v, err := e.Eval(&eval.Ctx{VariableFetcher: &Fetcher{Vals: env}})
						return outcome(v, err)
					})
					outs = append(outs, res)
				}
				rec["outs"] = outs
				emit(rec)
			}
		}
	}
}

func init() { families["total"] = famTotal }

// modelStrings rewrites string constants of a tree as the concatenation of their model
// character names (Parser.tla!Concat), so that trees can be compared with the model's.
func modelStrings(t *Tree) {
	if t.K == "c" {
		m := t.V.(M)
		switch m["t"] {
		case "s":
			m["v"] = strings.Join(abstractS(m["v"].(string)), "")
		case "sl":
			a := m["v"].([]interface{})
			for i := range a {
				a[i] = strings.Join(abstractS(a[i].(string)), "")
			}
		}
	}
	for _, k := range t.Kids {
		modelStrings(k)
	}
}
