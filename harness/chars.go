package main

// The table of model characters (Lexer.tla): every model character stands for
// exactly one rune.

var charTable = map[string]rune{
	"(": '(', ")": ')', "[": '[', "]": ']', ",": ',', ";": ';', "Q": '"',
	"SP": ' ', "TAB": '\t', "NBSP": ' ', "IDSP": '　', "CR": '\r', "NL": '\n',
	"Eacute": 'é', "Agrave": 'à', "Aring": 'Å', "Ni": '你', "BS": '\\', "CTL": '\x01', "U": '€',
	"-": '-', "+": '+', ".": '.', "_": '_', "!": '!',
	":": ':', "<": '<', "=": '=', ">": '>', "&": '&', "|": '|', "*": '*', "/": '/', "%": '%',
}
var runeTable = map[rune]string{}

func init() {
	for c := 'a'; c <= 'z'; c++ {
		charTable[string(c)] = c
	}
	for c := 'A'; c <= 'Z'; c++ {
		switch c {
		case 'Q', 'U': // "Q" is the double quote and "U" any other rune in the model's alphabet
			charTable[string(c)+"_"] = c
		default:
			charTable[string(c)] = c
		}
	}
	for c := '0'; c <= '9'; c++ {
		charTable[string(c)] = c
	}
	for k, v := range charTable {
		runeTable[v] = k
	}
}

func concretise(model []string) string {
	rs := make([]rune, len(model))
	for i, m := range model {
		r, ok := charTable[m]
		if !ok {
			panic("no rune for model character " + m)
		}
		rs[i] = r
	}
	return string(rs)
}

func abstract(s string) []interface{} {
	out := []interface{}{}
	for _, r := range s {
		if m, ok := runeTable[r]; ok {
			out = append(out, m)
		} else {
			out = append(out, "U")
		}
	}
	return out
}

func abstractS(s string) []string {
	out := []string{}
	for _, r := range s {
		if m, ok := runeTable[r]; ok {
			out = append(out, m)
		} else {
			out = append(out, "U")
		}
	}
	return out
}
