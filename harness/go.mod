module verif/harness

go 1.18

require github.com/onheap/eval v0.0.0

replace github.com/onheap/eval => /repo
