package main

// Family "compile" (C08): histories of Compile / CopyConfig / ExtendConf / mutation on
// caller-owned configs with deep snapshots around every call, program fingerprints, and
// concurrent compilations on one shared config (run under the Go race detector).

import (
	"crypto/sha1"
	"fmt"
	"math"
	"math/rand"
	"reflect"
	"sort"
	"strings"
	"sync"

	"github.com/onheap/eval"
)

// snapshot renders every part of a Config deterministically.
func snapshot(c *eval.Config) string {
	var sb strings.Builder
	keys := func(m interface{}) []string {
		v := reflect.ValueOf(m)
		var ks []string
		for _, k := range v.MapKeys() {
			ks = append(ks, fmt.Sprint(k.Interface()))
		}
		sort.Strings(ks)
		return ks
	}
	sb.WriteString("const:")
	for _, k := range keys(c.ConstantMap) {
		fmt.Fprintf(&sb, "%s=%#v;", k, c.ConstantMap[k])
	}
	sb.WriteString("|ops:")
	for _, k := range keys(c.OperatorMap) {
		fmt.Fprintf(&sb, "%s=%x;", k, reflect.ValueOf(c.OperatorMap[k]).Pointer())
	}
	sb.WriteString("|vars:")
	for _, k := range keys(c.VariableKeyMap) {
		fmt.Fprintf(&sb, "%s=%d;", k, c.VariableKeyMap[k])
	}
	sb.WriteString("|costs:")
	for _, k := range keys(c.CostsMap) {
		fmt.Fprintf(&sb, "%s=%x;", k, math.Float64bits(c.CostsMap[k]))
	}
	sb.WriteString("|opts:")
	for _, k := range keys(c.CompileOptions) {
		fmt.Fprintf(&sb, "%s=%v;", k, c.CompileOptions[eval.CompileOption(k)])
	}
	fmt.Fprintf(&sb, "|stateless(%d):%s", len(c.StatelessOperators), strings.Join(c.StatelessOperators, ","))
	return sb.String()
}

func hashOf(s string) string { return fmt.Sprintf("%x", sha1.Sum([]byte(s)))[:16] }

var fpEnvs = []Env{
	{"x": true, "y": false, "z": true, "n": int64(2), "m": int64(0), "s": "a", "l": []int64{1, 2}, "u": true, "w": int64(1)},
	{"x": false, "y": false, "z": false, "n": int64(0), "m": int64(3), "s": "b", "l": []int64{}, "u": false, "w": int64(0)},
}

// fingerprint compiles src under cc and renders what the program is and does.
func fingerprint(cc *eval.Config, src string) string {
	fp, _ := fingerprintE(cc, src)
	return fp
}

func fingerprintE(cc *eval.Config, src string) (string, *eval.Expr) {
	var e *eval.Expr
	var err error
	p := safely(func() M { e, err = eval.Compile(cc, src); return nil })
	if p != nil {
		return "panic:" + fmt.Sprint(p["msg"], p["v"]), nil
	}
	if err != nil {
		return "err:" + err.Error(), nil
	}
	return render(e), e
}

// render: what a compiled program is (Dump, DumpTable) and does (results on two bindings)
func render(e *eval.Expr) string {
	var sb strings.Builder
	p := safely(func() M {
		sb.WriteString(eval.Dump(e))
		sb.WriteString("\n")
		sb.WriteString(eval.DumpTable(e, true))
		for _, env := range fpEnvs {
			v, err := e.Eval(&eval.Ctx{VariableFetcher: &Fetcher{Vals: env}})
			fmt.Fprintf(&sb, "|%v,%v", v, err != nil)
		}
		return nil
	})
	if p != nil {
		return "panic:" + fmt.Sprint(p["msg"], p["v"])
	}
	return sb.String()
}

var compileSources = []string{
	"(and (or x y) (> (+ n 1) m) (= s \"a\"))",
	";;;; optimize:false\n(and (or x y) (> (+ n 1) m) (= s \"a\"))",
	";;;; constant_folding:false, reordering:false\n(or (and true x) (if y (> n 0) (in n l)) (f z))",
	";;;; optimize:false, fast_evaluation:true\n(or (and true x) (if y (> n 0) (in n l)) (f z))",
	"(or (and true x) (if y (> n 0) (in n l)) (f z))",
	";;;; reduce_nesting:false\n(and x (and y (and z (or x y))))",
	"(and x (and y (and z (or x y))))",
	"(and u (> w 0))", // u, w: only known in undefined-variable mode
	";;;; reordering:true\n(and (p 1) (f x) (> (+ 1 2) n))",
	"(+ K (if KT n m))",
	"; an ordinary comment first\n;;;; optimize:false\n(and (or x y) (> (+ n 1) m) (= s \"a\"))",
	"\n  \t;;;; reordering:false, constant_folding:false\n(or (and true x) (if y (> n 0) (in n l)) (f z))",
	";; note\n; another\n;;;; fast_evaluation:false\n;;;; reduce_nesting:false\n(and x (and y (and z (or x y))))",
	"(and (| x y) (gt (add n 1) m) (== s \"a\") (in n l) (f z) (|| y z) (&& x z))",
	"(or (== n m) (eq s \"b\") (> n m) (&& x y) (p z) (|| z y))",
	"(and (lt m 2) (== n 1))",
	"(and (= (p 1) 1) (= (f 2) 2) x)", // calls with constant arguments: folded exactly for the names declared stateless
	"(if (p true) n m)",
	"(and (> n 1) x (p true))",
}

// the same kind of sources in infix notation (configs with InfixNotation pick from this list; a source index means
// the source of the config's own notation)
var compileSourcesInfix = []string{
	"x && (y || z) && n + 1 > m",
	";;;; optimize:false\nx && (y || z) && n + 1 > m",
	"if(x, n + 1, m * 2) >= 2 || f(z)",
	"!x || in(n, [1 2 3]) && s == \"a\"",
	"f(n) + p(m) * 2 - n % 3 == 0 || y",
	";;;; reduce_nesting:false, reordering:false\nx && (y && (z && (x || y)))",
	"(x || y) && (n > m) && (s != \"b\") && overlap(l, [2 5])",
	"; note\n;;;; fast_evaluation:false\nif(n > m, f(x), !y) || [1 2] == l",
	"between(n, 0, K) && KT || g(n, m) > 1",
	"n * (m + 2) / 3 - -1 > 0 && !(x && !y)",
	"f(f(f(n))) == n && p(x) || h(y)",
	"x",
	"(((n + m)))* 2 >= n || ((x))",
	"u && w > 0",
	"\"a\" == s || in(s, [\"a\" \"b\"]) && in(1, [1])",
	"x || y || z || n > 1 || m > 1 || f(x)",
	"p(1) == 1 && f(2) == 2 && x",
	"if(p(true), n, m)",
	"n > 1 && x && p(true)",
}

func sourcesFor(cc *eval.Config) []string {
	if cc.CompileOptions[eval.InfixNotation] {
		return compileSourcesInfix
	}
	return compileSources
}

func baseConfig(r *rand.Rand, kind int) *eval.Config {
	l := &Log{Phase: "eval"}
	cc, _ := newConf(ConfOpts{Mask: []int{15, 0, 5, 10}[kind%4], Undefined: kind%3 == 1}, l)
	// pure operators: this family runs goroutines, the logging ones share a Log
	ident := func(_ *eval.Ctx, ps []eval.Value) (eval.Value, error) {
		if len(ps) == 0 {
			return nil, sentinel("op:f")
		}
		return ps[0], nil
	}
	for _, n := range []string{"f", "p", "g", "h"} {
		cc.OperatorMap[n] = ident
	}
	// spare capacity, so that a copy sharing the backing array would be visible
	cc.StatelessOperators = append(make([]string, 0, 8), cc.StatelessOperators...)
	if kind%2 == 0 {
		cc.CostsMap["x"], cc.CostsMap["f"] = 50, -3
	}
	if kind%4 == 3 || kind == 4 {
		// different costs for different spellings of the same operator: a cost belongs to the spelling
		for n, c := range map[string]float64{"eq": 1, "=": 400, "and": 2, "&": 990, "or": 3, "|": 950, // (the third spelling has no entry)
			"gt": 4, "add": 6, "+": 85, "in": 7, "f": 20, "p": 30} {
			cc.CostsMap[n] = c
		}
	}
	if kind%3 == 1 {
		delete(cc.CompileOptions, eval.ConstantFolding) // absent = enabled
		for _, v := range varNames {
			eval.GetOrRegisterKey(cc, v)
		}
	}
	if kind >= 12 {
		cc.CompileOptions[eval.InfixNotation] = true
	}
	return cc
}

func famCompile() {
	r := rand.New(rand.NewSource(*fSeed))
	id := *fIDBase - 1
	// ---- sequential histories ----
	nseq := *fN
	if *fFor == "concurrent" {
		nseq = 0
	}
	for i := 0; i < nseq; i++ {
		id++
		k1, k2 := r.Intn(16), r.Intn(16)
		cfgs := []*eval.Config{baseConfig(r, k1), baseConfig(r, k2)}
		// how each config came to its contents (its kind and the caller's changes since): a config with a known history
		// can be rebuilt from scratch -- a twin that no compilation has touched yet
		kinds := []int{k1, k2}
		muts := [][]func(*eval.Config){nil, nil}
		type kept struct {
			step int
			e    *eval.Expr
			was  string
		}
		var programs []kept
		steps := []interface{}{}
		compileStep := func(ci, si int) {
			cc := cfgs[ci]
			before := snapshot(cc)
			fp, e := fingerprintE(cc, sourcesFor(cc)[si])
			after := snapshot(cc)
			if e != nil {
				programs = append(programs, kept{len(steps), e, fp})
			}
			steps = append(steps, M{"op": "compile", "cfg": ci, "src": si, "before": hashOf(before), "after": hashOf(after), "fp": hashOf(fp), "fpend": hashOf(fp),
				"compiled": !strings.HasPrefix(fp, "err:") && !strings.HasPrefix(fp, "panic:"), "panic": strings.HasPrefix(fp, "panic:")})
		}
		nsteps := 3 + r.Intn(8)
		for s := 0; s < nsteps; s++ {
			ci := r.Intn(len(cfgs))
			cc := cfgs[ci]
			switch r.Intn(8) {
			case 6:
				// the caller changes its own config in place: later compilations must follow the new contents
				var m func(*eval.Config)
				switch r.Intn(4) {
				case 0:
					m = func(c *eval.Config) { // another list of the same length
						for j, n := range c.StatelessOperators {
							c.StatelessOperators[j] = map[string]string{"p": "f", "f": "p"}[n]
							if c.StatelessOperators[j] == "" {
								c.StatelessOperators[j] = n
							}
						}
					}
				case 1:
					m = func(c *eval.Config) { c.ConstantMap["K"] = int64(5) }
				case 2:
					m = func(c *eval.Config) { c.CostsMap["x"], c.CostsMap["n"] = 77, -2 }
				default:
					m = func(c *eval.Config) { c.StatelessOperators = append(c.StatelessOperators[:0:0], "f", "p") }
				}
				m(cc)
				if ci < 2 {
					muts[ci] = append(muts[ci], m)
				}
				steps = append(steps, M{"op": "mutate", "cfg": ci, "src": 0, "before": "", "after": hashOf(snapshot(cc)), "fp": ""})
				continue
			case 7:
				// a twin: the same contents built from scratch; the sources that are sensitive to what is declared stateless
				// are compiled on the used config and on the twin
				if ci >= 2 || len(cfgs) >= 5 {
					continue
				}
				tw := baseConfig(r, kinds[ci])
				for _, m := range muts[ci] {
					m(tw)
				}
				cfgs = append(cfgs, tw)
				ti := len(cfgs) - 1
				steps = append(steps, M{"op": "twin", "cfg": ci, "src": 0, "before": hashOf(snapshot(cc)), "after": hashOf(snapshot(tw)), "fp": ""})
				for _, si := range []int{16, 17, 18, 8, r.Intn(len(compileSources))} {
					compileStep(ci, si)
					compileStep(ti, si)
				}
				continue
			}
			switch r.Intn(6) {
			case 0, 1, 2, 3:
				compileStep(ci, r.Intn(len(compileSources)))
			case 4:
				// CopyConfig / ExtendConf, then mutate the copy in every component
				var cp *eval.Config
				how := "copy"
				if r.Intn(2) == 0 {
					cp = eval.CopyConfig(cc)
				} else {
					how = "extend"
					cp = eval.NewConfig(eval.ExtendConf(cc))
				}
				same := snapshot(cp) == snapshot(cc)
				before := snapshot(cc)
				cp.ConstantMap["NEW"] = int64(1)
				cp.OperatorMap["newop"] = func(*eval.Ctx, []eval.Value) (eval.Value, error) { return nil, nil }
				eval.GetOrRegisterKey(cp, "newvar")
				cp.CostsMap["x"] = 12345
				cp.CompileOptions[eval.Reordering] = !cp.CompileOptions[eval.Reordering]
				cp.StatelessOperators = append(cp.StatelessOperators, "newop")
				if len(cp.StatelessOperators) > 1 {
					cp.StatelessOperators[0] = "renamed"
				}
				// and the source afterwards (a shared backing array would show here)
				cc.StatelessOperators = append(cc.StatelessOperators, "p")
				cc.StatelessOperators = cc.StatelessOperators[:len(cc.StatelessOperators)-1]
				after := snapshot(cc)
				cpOK := strings.Contains(snapshot(cp), "newop")
				steps = append(steps, M{"op": how, "cfg": ci, "src": 0, "before": hashOf(before), "after": hashOf(after), "fp": "", "equalcopy": same, "copyholds": cpOK})
				if len(cfgs) < 4 {
					cfgs = append(cfgs, cp)
				}
			case 5:
				// the caller changes its own config: later compilations must follow
				opt := optNames[r.Intn(4)]
				m := func(c *eval.Config) { c.CompileOptions[opt] = !c.CompileOptions[opt] }
				m(cc)
				if ci < 2 {
					muts[ci] = append(muts[ci], m)
				}
				steps = append(steps, M{"op": "mutate", "cfg": ci, "src": 0, "before": "", "after": hashOf(snapshot(cc)), "fp": ""})
			}
		}
		// every program compiled during the history is still what it was when it was compiled
		for _, k := range programs {
			steps[k.step].(M)["fpend"] = hashOf(render(k.e))
		}
		emit(M{"fam": "compile", "for": "C08", "kind": "history", "id": id, "steps": steps, "src": "compile history"})
	}
	if *fFor != "concurrent" {
		convHistories(r, *fN/3+1, &id)
	}
	// ---- concurrent compilations on one shared config ----
	nconc := *fN/10 + 1
	if *fFor == "sequential" {
		nconc = 0
	}
	for i := 0; i < nconc; i++ {
		id++
		cc := baseConfig(r, i%24) // kinds 12.. compile infix sources
		before := snapshot(cc)
		// sequential baseline on a private copy
		want := make([]string, len(compileSources))
		ref := eval.CopyConfig(cc)
		for si, s := range sourcesFor(cc) {
			want[si] = hashOf(fingerprint(ref, s))
		}
		var wg sync.WaitGroup
		nG := 8
		got := make([][]interface{}, nG)
		for g := 0; g < nG; g++ {
			wg.Add(1)
			go func(g int, seed int64) {
				defer wg.Done()
				rr := rand.New(rand.NewSource(seed))
				for k := 0; k < 12; k++ {
					si := rr.Intn(len(compileSources))
					fp := hashOf(fingerprint(cc, sourcesFor(cc)[si]))
					got[g] = append(got[g], M{"src": si, "fp": fp, "want": want[si]})
				}
			}(g, r.Int63())
		}
		wg.Wait()
		all := []interface{}{}
		for _, g := range got {
			all = append(all, g...)
		}
		emit(M{"fam": "compile", "for": "C08", "kind": "concurrent", "id": id, "before": hashOf(before), "after": hashOf(snapshot(cc)),
			"runs": all, "src": "concurrent compiles"})
	}
}

// convHistories: the convenience call without options, same source and same names, other operator
// functions behind the names from call to call.
func convHistories(r *rand.Rand, n int, id *int) {
	g := &gen{r: r, c: GenCfg{Custom: true, Alias: true, MaxKids: 3, Lists: true, Strings: true, Failing: true}}
	uses := func(src string) bool {
		for _, n := range []string{"(f ", "(g ", "(zt)", "(zf)"} {
			if strings.Contains(src, n) {
				return true
			}
		}
		return false
	}
	for i := 0; i < n; i++ {
		typ := "b"
		if r.Intn(3) == 0 {
			typ = "i"
		}
		t, _ := g.tree(typ, 1+r.Intn(3))
		src := t.Src()
		if len(t.Kids) == 0 || !uses(src) {
			i--
			continue
		}
		*id++
		calls := []interface{}{}
		first := r.Intn(2)
		for k := 0; k < 4; k++ {
			env := randEnv(r)
			swap := (k+first)%2 == 1
			vals := map[string]interface{}{}
			for n, v := range env {
				vals[n] = v
			}
			ops := customOps(&Log{Phase: "eval"})
			for n, f := range ops {
				vals[n] = f
			}
			if swap {
				vals["f"], vals["g"] = ops["g"], ops["f"]
				vals["zt"], vals["zf"] = ops["zf"], ops["zt"]
			}
			res := safely(func() M {
				v, err := eval.Eval(src, vals)
				return outcome(v, err)
			})
			calls = append(calls, M{"swap": swap, "env": envRec(env), "res": res})
		}
		emit(M{"fam": "compile", "for": "C08", "kind": "conv", "id": *id, "src": src, "tree": t, "calls": calls})
	}
}

func init() { families["compile"] = famCompile }
