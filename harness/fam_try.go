package main

// Family "try": TryEval / TryEvalBool observations for C04 and C05.  One line per
// (source tree, variant): for each base binding and each available/unavailable
// split, the TryEval outcome, and the Eval outcome under enumerated completions of
// the unavailable variables.

import (
	"math/rand"
	"sort"

	"github.com/onheap/eval"
)

var candVals = map[string][]interface{}{
	"x": {true, false}, "y": {true, false}, "z": {true, false},
	"n": {int64(0), int64(2), int64(-1)}, "m": {int64(1), int64(0), int64(3)},
	"s": {"a", "b", "DNE"}, "l": {[]int64{1, 2}, []int64{}},
}

func varsOf(t *Tree, acc map[string]bool) {
	if t.K == "v" {
		acc[t.V.(string)] = true
	}
	for _, k := range t.Kids {
		varsOf(k, acc)
	}
}

func famTry() {
	r := rand.New(rand.NewSource(*fSeed))
	prop := *fFor
	gc := GenCfg{Custom: true, Alias: true, MaxKids: 4, Lists: true, Strings: true, OddStrings: true, Consts: true, ConstBias: 30}
	if prop == "C04" {
		gc.Failing = true
	}
	var trees []*Tree
	if *fCases != "" {
		trees = append(trees, readCases(*fCases)...)
	}
	if *fExh >= 0 {
		all := enumTrees("b", *fExh, false, true)
		var nl []*Tree
		for _, t := range all {
			if len(t.Kids) > 0 {
				nl = append(nl, t)
			}
		}
		if *fExhMax > 0 && len(nl) > *fExhMax {
			r.Shuffle(len(nl), func(i, j int) { nl[i], nl[j] = nl[j], nl[i] })
			nl = nl[:*fExhMax]
		}
		trees = append(trees, nl...)
	}
	g := &gen{r: r, c: gc}
	for i := 0; i < *fN; i++ {
		typ := "b"
		if r.Intn(5) == 0 {
			typ = "i"
		}
		var t *Tree
		if i%9 == 8 {
			t = g.spine(typ, 5+r.Intn(10))
		} else {
			t, _ = g.tree(typ, 1+r.Intn(*fDepth))
		}
		if len(t.Kids) == 0 {
			i--
			continue
		}
		trees = append(trees, t)
	}
	// tall and wide programs: an operand that may be unavailable sits behind 60 … 100 pending operands (operand-stack
	// slots far above anything a depth-5 tree reaches), in a wide operator and at the bottom of a right-leaning chain,
	// below an `or` / `and` that an available operand decides or does not
	for i := 0; i < 12+*fN/100; i++ {
		k := []int{60, 63, 64, 65, 66, 70, 100}[r.Intn(7)]
		last := "m" // the only occurrence of m: when m is the unavailable one, the only unknown sits at slot k
		wide := op(g.pick("+", "add"))
		for j := 0; j < k; j++ {
			wide.Kids = append(wide.Kids, []*Tree{vr("n"), cst(int64(1))}[r.Intn(2)])
		}
		wide.Kids = append(wide.Kids, vr(last))
		chain := vr(last)
		for j := 0; j < k; j++ {
			chain = op("+", []*Tree{vr("n"), cst(int64(1))}[r.Intn(2)], chain)
		}
		// the same with and/or, whose unknown operands do stay on the operand stack: z occurs once, last or last but one
		bo := []string{"or", "and"}[r.Intn(2)]
		neutral := func() *Tree { // an operand that does not decide a `bo`
			if bo == "or" {
				return []*Tree{op("<", vr("n"), cst(int64(-9))), cst(false), op("!=", vr("n"), vr("n"))}[r.Intn(3)]
			}
			return []*Tree{op(">", vr("n"), cst(int64(-9))), cst(true), op("=", vr("n"), vr("n"))}[r.Intn(3)]
		}
		bwide := op(g.pick(bo))
		for j := 0; j < k; j++ {
			bwide.Kids = append(bwide.Kids, neutral())
		}
		bwide.Kids = append(bwide.Kids, vr("z"))
		if r.Intn(2) == 0 {
			bwide.Kids = append(bwide.Kids, vr("x"))
		}
		bchain := op(bo, neutral(), vr("z"))
		for j := 0; j < k; j++ {
			bchain = op(bo, neutral(), bchain)
		}
		if i%4 >= 2 {
			trees = append(trees, []*Tree{bwide, bchain, op("not", bwide), op("if", bchain, vr("y"), vr("x"))}[r.Intn(4)])
			continue
		}
		body := []*Tree{wide, chain}[i%2]
		cmp := op(g.pick(">", "gt", "!="), body, cst(int64(-5)))
		switch i % 3 {
		case 0:
			trees = append(trees, op(g.pick("or", "||", "|"), cmp, vr("x")))
		case 1:
			trees = append(trees, op(g.pick("and", "&&", "&"), vr("y"), cmp))
		default:
			trees = append(trees, op("if", vr("x"), cmp, op("not", cmp)))
		}
	}
	seen := map[string]bool{}
	id := *fIDBase - 1
	for ti, t := range trees {
		src := t.Src()
		if seen[src] {
			continue
		}
		seen[src] = true
		curK = []int64{3, 3, 3, 7}[ti%4]
		setK(t, curK)
		vm := map[string]bool{}
		varsOf(t, vm)
		var vnames []string
		for v := range vm {
			vnames = append(vnames, v)
		}
		sort.Strings(vnames)
		// variants: all-off, all-on, two random subsets (one under a cost map)
		vs := []ConfOpts{{Mask: 0}, {Mask: 15}, {Mask: r.Intn(16)},
			{Mask: 8 | r.Intn(8), Costs: costMaps[1+r.Intn(len(costMaps)-1)]},
			{Mask: r.Intn(16), Events: []string{"report", "debug"}[r.Intn(2)]}}
		for vi, o := range vs {
			id++
			wantProg := *fProgEvery > 0 && id%*fProgEvery == 0
			c := compileVariant(src, o, wantProg)
			rec := M{"fam": "try", "for": prop, "id": id, "src": src, "tree": t, "var": c.rec, "vi": vi}
			var envs []Env
			if len(vnames) <= 3 {
				envs = smallEnvs(true)[:4+2*r.Intn(3)]
			} else {
				for k := 0; k < 3; k++ {
					envs = append(envs, randEnv(r))
				}
			}
			// a caller's fetcher may hand out values of Go types the engine has no case for (a plain int from
			// a JSON / DB layer): Eval and TryEval must treat them alike
			if id%4 == 3 {
				envs = append([]Env{}, envs...)
				for k := range envs {
					e2 := Env{}
					for n, v := range envs[k] {
						e2[n] = v
					}
					e2[[]string{"n", "m"}[(id/4+k)%2]] = int(3)
					envs[k] = e2
				}
			}
			er := []interface{}{}
			tries := []interface{}{}
			for ei, env := range envs {
				er = append(er, envRec(env))
				if c.expr == nil {
					continue
				}
				// splits: all subsets of the variables if few, else sampled (always incl. all / none)
				var splits []int
				nv := len(vnames)
				if nv <= 3 {
					for s := 0; s < 1<<uint(nv); s++ {
						splits = append(splits, s)
					}
				} else {
					splits = []int{0, 1<<uint(nv) - 1}
					for k := 0; k < 6; k++ {
						splits = append(splits, r.Intn(1<<uint(nv)))
					}
				}
				// some records reuse ONE context object for all splits of a binding (a caller that keeps its
				// context while more variables arrive): every answer is for what is available at that call
				shared := &Fetcher{Vals: env, Log: c.log}
				sharedCtx := &eval.Ctx{VariableFetcher: shared}
				for _, sp := range splits {
					avail := map[string]bool{}
					av := []interface{}{}
					var un []string
					for j, v := range vnames {
						if sp&(1<<uint(j)) != 0 {
							avail[v] = true
							av = append(av, v)
						} else {
							un = append(un, v)
						}
					}
					tr := M{"e": ei + 1, "av": av, "lib": ""}
					c.log.reset()
					ctx := &eval.Ctx{VariableFetcher: &Fetcher{Vals: env, Avail: avail, Log: c.log}}
					if id%3 == 1 {
						shared.Avail = avail
						ctx = sharedCtx
					}
					tr["res"] = safely(func() M {
						v, err := c.expr.TryEval(ctx)
						return outcome(v, err)
					})
					drain(c.expr)
					eff := []interface{}{}
					for _, e := range c.log.Eff {
						eff = append(eff, e)
					}
					tr["eff"] = eff
					tr["bres"] = safely(func() M {
						v, err := c.expr.TryEvalBool(&eval.Ctx{VariableFetcher: &Fetcher{Vals: env, Avail: avail}})
						if err != nil {
							return te(err)
						}
						return tv(v)
					})
					drain(c.expr)
					// completions of the unavailable variables
					comps := []Env{env}
					if prop == "C05" {
						un = nil // C05 compares TryEval with three-valued evaluation only
					}
					total := 1
					for _, u := range un {
						total *= len(candVals[u])
					}
					if total <= 8 {
						comps = allCompletions(env, un)
					} else {
						for k := 0; k < 7; k++ {
							e2 := Env{}
							for n, v := range env {
								e2[n] = v
							}
							for _, u := range un {
								e2[u] = candVals[u][r.Intn(len(candVals[u]))]
							}
							comps = append(comps, e2)
						}
					}
					evs := []interface{}{}
					for _, ce := range comps {
						res := safely(func() M {
							v, err := c.expr.Eval(&eval.Ctx{VariableFetcher: &Fetcher{Vals: ce}})
							return outcome(v, err)
						})
						drain(c.expr)
						over := M{}
						for _, u := range un {
							over[u] = tv(ce[u])
						}
						evs = append(evs, M{"c": over, "res": res})
					}
					tr["evals"] = evs
					tries = append(tries, tr)
				}
			}
			// the same through the library's own contexts (NewCtxFromVars): a slice context when the
			// registered keys fit 0..255 (every registered variable is then available), else a map
			// context (available = present in the value map)
			if o.Events == "" && c.expr != nil && len(envs) > 0 && id%4 != 3 { // (a library context unifies the Go types of its values: not with foreign-typed bindings)
				tries = append(tries, libTries(r, src, o, vnames, envs, prop)...)
			}
			rec["envs"], rec["tries"] = er, tries
			names := []interface{}{}
			for _, v := range vnames {
				names = append(names, v)
			}
			rec["vnames"] = names
			emit(rec)
		}
	}
}

func libTries(r *rand.Rand, src string, o ConfOpts, vnames []string, envs []Env, prop string) []interface{} {
	var out []interface{}
	nv := len(vnames)
	for _, lay := range []struct {
		kind string
		base int
	}{{"slice", 0}, {"map", 300}} {
		l := &Log{Phase: "compile"}
		cc, dir := newConf(o, l)
		for i, v := range varNames {
			cc.VariableKeyMap[v] = eval.VariableKey(lay.base + i)
		}
		var e *eval.Expr
		var err error
		if p := safely(func() M { e, err = eval.Compile(cc, dir+src); return nil }); p != nil || err != nil || e == nil {
			continue
		}
		l.Phase = "eval"
		ne := 2
		if len(envs) < ne {
			ne = len(envs)
		}
		for ei := 0; ei < ne; ei++ {
			env := envs[ei]
			splits := []int{1<<uint(nv) - 1}
			if lay.kind == "map" {
				if nv <= 2 {
					for sp := 0; sp < 1<<uint(nv)-1; sp++ {
						splits = append(splits, sp)
					}
				} else {
					splits = append(splits, 0, r.Intn(1<<uint(nv)), r.Intn(1<<uint(nv)))
				}
			}
			for _, sp := range splits {
				vals := map[string]interface{}{}
				av := []interface{}{}
				var un []string
				for j, v := range vnames {
					if sp&(1<<uint(j)) != 0 {
						vals[v] = env[v]
						av = append(av, v)
					} else {
						un = append(un, v)
					}
				}
				tr := M{"e": ei + 1, "av": av, "lib": lay.kind, "eff": []interface{}{}}
				tr["res"] = safely(func() M {
					ctx := eval.NewCtxFromVars(cc, vals)
					if _, isSlice := ctx.VariableFetcher.(eval.SliceVarFetcher); isSlice != (lay.kind == "slice") {
						return M{"t": "p", "v": "fetcher-kind", "msg": "NewCtxFromVars chose the other fetcher"}
					}
					v, err := e.TryEval(ctx)
					return outcome(v, err)
				})
				tr["bres"] = safely(func() M {
					v, err := e.TryEvalBool(eval.NewCtxFromVars(cc, vals))
					if err != nil {
						return te(err)
					}
					return tv(v)
				})
				if prop == "C05" {
					un = nil
				}
				total := 1
				for _, u := range un {
					total *= len(candVals[u])
				}
				comps := []Env{env}
				if total <= 8 {
					comps = allCompletions(env, un)
				}
				evs := []interface{}{}
				for _, ce := range comps {
					full := map[string]interface{}{}
					for _, v := range vnames {
						full[v] = ce[v]
					}
					res := safely(func() M {
						v, err := e.Eval(eval.NewCtxFromVars(cc, full))
						return outcome(v, err)
					})
					over := M{}
					for _, u := range un {
						over[u] = tv(ce[u])
					}
					evs = append(evs, M{"c": over, "res": res})
				}
				tr["evals"] = evs
				out = append(out, tr)
			}
		}
	}
	return out
}

func allCompletions(env Env, un []string) []Env {
	res := []Env{{}}
	for n, v := range env {
		res[0][n] = v
	}
	for _, u := range un {
		var next []Env
		for _, e := range res {
			for _, cv := range candVals[u] {
				e2 := Env{}
				for n, v := range e {
					e2[n] = v
				}
				e2[u] = cv
				next = append(next, e2)
			}
		}
		res = next
	}
	return res
}

func init() { families["try"] = famTry }
