package main

// Family "events" (C12): the same source compiled with events off and with
// ReportEvent / Debug; results, Dump, and the event stream as seen by three consumer
// disciplines (copy on receive; buffered channel drained after the call; events
// retained un-copied and inspected after the call).

import (
	"math/rand"
	"sync"

	"github.com/onheap/eval"
)

func evRec(ev eval.Event) M {
	switch ev.EventType {
	case eval.OpExecEvent:
		d := ev.Data.(eval.OpEventData)
		return M{"k": "op", "n": d.OpName, "ps": copyVals(d.Params), "r": outcome(d.Res, d.Err), "fast": d.IsFastOp}
	case eval.LoopEvent:
		d := ev.Data.(eval.LoopEventData)
		return M{"k": "loop", "pos": int(d.CurtIdx) + 1, "stack": copyVals(ev.Stack), "nty": d.NodeType.String()}
	}
	return M{"k": "unknown"}
}

// runWith runs f (an Eval or TryEval call) under the given consumer discipline and
// returns the outcome and the events as that consumer sees them.
func runWith(e *eval.Expr, disc string, call func() M) (M, []interface{}) {
	var res M
	evs := []interface{}{}
	switch disc {
	case "sync":
		ch := make(chan eval.Event)
		e.EventChan = ch
		var wg sync.WaitGroup
		wg.Add(1)
		go func() {
			defer wg.Done()
			for ev := range ch {
				evs = append(evs, evRec(ev)) // deep copy at receive time
			}
		}()
		res = call()
		close(ch)
		wg.Wait()
	case "buffered":
		ch := make(chan eval.Event, 1<<16)
		e.EventChan = ch
		res = call()
		close(ch)
		for ev := range ch {
			evs = append(evs, evRec(ev)) // read after the evaluation has finished
		}
	case "retained":
		ch := make(chan eval.Event)
		e.EventChan = ch
		var kept []eval.Event
		var wg sync.WaitGroup
		wg.Add(1)
		go func() {
			defer wg.Done()
			for ev := range ch {
				kept = append(kept, ev) // no copy
			}
		}()
		res = call()
		close(ch)
		wg.Wait()
		for _, ev := range kept {
			evs = append(evs, evRec(ev))
		}
	}
	e.EventChan = nil
	return res, evs
}

func famEvents() {
	r := rand.New(rand.NewSource(*fSeed))
	gc := GenCfg{Custom: true, Alias: true, MaxKids: 4, Lists: true, Strings: true, OddStrings: true, Consts: true, Failing: true, Boom: true, ConstBias: 35}
	g := &gen{r: r, c: gc}
	var trees []*Tree
	if *fCases != "" {
		trees = append(trees, readCases(*fCases)...)
	}
	if *fExh >= 0 {
		all := enumTrees("b", *fExh, false, true)
		r.Shuffle(len(all), func(i, j int) { all[i], all[j] = all[j], all[i] })
		for _, t := range all {
			if len(t.Kids) > 0 && (*fExhMax == 0 || len(trees) < *fExhMax) {
				trees = append(trees, t)
			}
		}
	}
	for i := 0; i < *fN; i++ {
		typ := "b"
		if r.Intn(3) == 0 {
			typ = "i"
		}
		var t *Tree
		if i%7 == 6 {
			t = g.spine(typ, 5+r.Intn(10))
		} else {
			t, _ = g.tree(typ, 1+r.Intn(*fDepth))
		}
		if len(t.Kids) == 0 {
			i--
			continue
		}
		trees = append(trees, t)
	}
	seen := map[string]bool{}
	id := *fIDBase - 1
	for _, t := range trees {
		src := t.Src()
		if seen[src] {
			continue
		}
		seen[src] = true
		vm := map[string]bool{}
		varsOf(t, vm)
		for _, mask := range []int{0, 15, r.Intn(16)} {
			id++
			mode := []string{"report", "debug"}[r.Intn(2)]
			off := compileVariant(src, ConfOpts{Mask: mask}, false)
			on := compileVariant(src, ConfOpts{Mask: mask, Events: mode}, *fProgEvery > 0 && id%*fProgEvery == 0)
			rec := M{"fam": "events", "for": "C12", "id": id, "src": src, "tree": t, "off": off.rec, "on": on.rec}
			var envs []Env
			if id%2 == 0 {
				envs = smallEnvs(true)[:4]
			} else {
				envs = []Env{randEnv(r), randEnv(r), randEnv(r)}
			}
			er := []interface{}{}
			runs := []interface{}{}
			for ei, env := range envs {
				er = append(er, envRec(env))
				if off.expr == nil || on.expr == nil {
					continue
				}
				run := M{"e": ei + 1}
				// events off
				off.log.reset()
				run["off"] = safely(func() M {
					v, err := off.expr.Eval(&eval.Ctx{VariableFetcher: &Fetcher{Vals: env, Log: off.log}})
					return outcome(v, err)
				})
				// availability split for TryEval: drop one variable
				avail := map[string]bool{}
				av := []interface{}{}
				skip := r.Intn(len(vm) + 1)
				k := 0
				for _, n := range varNames {
					if vm[n] {
						if k != skip {
							avail[n] = true
							av = append(av, n)
						}
						k++
					}
				}
				run["av"] = av
				run["tryoff"] = safely(func() M {
					v, err := off.expr.TryEval(&eval.Ctx{VariableFetcher: &Fetcher{Vals: env, Avail: avail}})
					return outcome(v, err)
				})
				for _, disc := range []string{"sync", "buffered", "retained"} {
					on.log.reset()
					res, evs := runWith(on.expr, disc, func() M {
						return safely(func() M {
							v, err := on.expr.Eval(&eval.Ctx{VariableFetcher: &Fetcher{Vals: env, Log: on.log}})
							return outcome(v, err)
						})
					})
					eff := []interface{}{}
					for _, e := range on.log.Eff {
						eff = append(eff, e)
					}
					run[disc] = M{"res": res, "evs": evs, "eff": eff}
				}
				// events of this evaluation retained un-copied ACROSS a further evaluation of the same Expr
				{
					ch := make(chan eval.Event, 1<<16)
					on.expr.EventChan = ch
					on.log.reset()
					_ = safely(func() M {
						v, err := on.expr.Eval(&eval.Ctx{VariableFetcher: &Fetcher{Vals: env, Log: on.log}})
						return outcome(v, err)
					})
					var kept []eval.Event
					for len(ch) > 0 {
						kept = append(kept, <-ch)
					}
					other := envs[(ei+1)%len(envs)]
					_ = safely(func() M {
						v, err := on.expr.Eval(&eval.Ctx{VariableFetcher: &Fetcher{Vals: other, Log: on.log}})
						return outcome(v, err)
					})
					for len(ch) > 0 {
						<-ch
					}
					on.expr.EventChan = nil
					evs := []interface{}{}
					for _, ev := range kept {
						evs = append(evs, evRec(ev))
					}
					run["across"] = M{"evs": evs}
				}
				on.log.reset()
				tres, tevs := runWith(on.expr, "sync", func() M {
					return safely(func() M {
						v, err := on.expr.TryEval(&eval.Ctx{VariableFetcher: &Fetcher{Vals: env, Avail: avail, Log: on.log}})
						return outcome(v, err)
					})
				})
				teff := []interface{}{}
				for _, e := range on.log.Eff {
					teff = append(teff, e)
				}
				run["tryon"] = M{"res": tres, "evs": tevs, "eff": teff}
				// TryEval's events read later (buffered channel drained after the call)
				_, tbevs := runWith(on.expr, "buffered", func() M {
					return safely(func() M {
						v, err := on.expr.TryEval(&eval.Ctx{VariableFetcher: &Fetcher{Vals: env, Avail: avail}})
						return outcome(v, err)
					})
				})
				run["trybuf"] = M{"evs": tbevs}
				runs = append(runs, run)
			}
			rec["envs"], rec["runs"] = er, runs
			emit(rec)
		}
	}
}

func init() { families["events"] = famEvents }
