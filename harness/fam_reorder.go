package main

// Family "reorder" (C16): the same source compiled with Reordering off and on under a
// cost map M, under M with one entry raised a little, and raised hugely; Dump trees.

import (
	"fmt"
	"math/rand"
	"sort"
)

func namesOf(t *Tree, vars, ops map[string]bool) {
	switch t.K {
	case "v":
		vars[t.V.(string)] = true
	case "o":
		ops[t.V.(string)] = true
	}
	for _, k := range t.Kids {
		namesOf(k, vars, ops)
	}
}

func copyCosts(m map[string]float64) map[string]float64 {
	r := map[string]float64{}
	for k, v := range m {
		r[k] = v
	}
	return r
}

func famReorder() {
	r := rand.New(rand.NewSource(*fSeed))
	g := &gen{r: r, c: GenCfg{Custom: true, Alias: true, MaxKids: 4, Lists: true, Strings: true, Consts: true, ConstBias: 20}}
	seen := map[string]bool{}
	id := *fIDBase - 1
	// (entries negative enough to make the estimated cost of a whole operand negative included)
	costVals := []float64{-3, 0, 0.5, 1, 7, 50, 1000, -0.25, -21.5, -100, -1e6}
	intVals := []float64{-3, 0, 1, 7, 50, -40}
	var trees []*Tree
	if *fCases != "" {
		trees = append(trees, readCases(*fCases)...)
	}
	for i := 0; i < *fN; i++ {
		var t *Tree
		if i%4 == 3 {
			// symmetric construction: operands equal up to renaming of variables
			shape := func(v string) *Tree {
				switch i % 3 {
				case 0:
					return op(">", vr(v), cst(int64(0)))
				case 1:
					return op("not", op("f", vr(v)))
				}
				return op("if", vr(v), vr(v), cst(false))
			}
			vs := []string{"x", "y", "z"}
			if i%3 == 0 {
				vs = []string{"n", "m", "n"}
			}
			t = op([]string{"and", "or", "&&", "|"}[r.Intn(4)], shape(vs[0]), shape(vs[1]), shape(vs[2]))
			if i%8 == 7 {
				// wide fans: library sorts switch algorithm above a dozen elements
				n := 13 + r.Intn(28)
				for j := 3; j < n; j++ {
					t.Kids = append(t.Kids, shape(vs[r.Intn(3)]))
				}
			}
			if r.Intn(2) == 0 {
				t = op("not", t)
			}
		} else {
			t, _ = g.tree("b", 2+r.Intn(*fDepth))
		}
		if len(t.Kids) == 0 {
			i--
			continue
		}
		trees = append(trees, t)
	}
	for _, t := range trees {
		src := t.Src()
		if seen[src] {
			continue
		}
		seen[src] = true
		id++
		vars, ops := map[string]bool{}, map[string]bool{}
		namesOf(t, vars, ops)
		var keys []string
		for k := range vars {
			keys = append(keys, k)
		}
		for k := range ops {
			keys = append(keys, k)
		}
		sort.Strings(keys)
		if len(keys) == 0 {
			continue
		}
		intmap := r.Intn(2) == 0
		M0 := map[string]float64{}
		pool := costVals
		if intmap {
			pool = intVals
		}
		for _, k := range keys {
			if r.Intn(3) == 0 {
				M0[k] = pool[r.Intn(len(pool))]
			}
		}
		// a cost belongs to a spelling: pricing another spelling of an operator of the tree changes nothing
		for _, grp := range aliasGroups {
			for _, name := range grp {
				if !ops[name] || r.Intn(3) > 0 {
					continue
				}
				for _, other := range grp {
					if !ops[other] && r.Intn(2) == 0 {
						M0[other] = pool[r.Intn(len(pool))]
					}
				}
			}
		}
		if r.Intn(4) == 0 {
			M0["variable"] = pool[r.Intn(len(pool))]
		}
		if r.Intn(4) == 0 {
			M0["operator"] = pool[r.Intn(len(pool))]
		}
		k := keys[r.Intn(len(keys))]
		eff := func(m map[string]float64, name string, isVar bool) float64 {
			if v, ok := m[name]; ok {
				return v
			}
			if isVar {
				if v, ok := m["variable"]; ok {
					return v
				}
				return 7
			}
			if v, ok := m["operator"]; ok {
				return v
			}
			return 10
		}
		M1 := copyCosts(M0)
		M1[k] = eff(M0, k, vars[k]) + []float64{0.25, 1, 40}[r.Intn(3)]
		M2 := copyCosts(M0)
		M2[k] = 1e300
		other := r.Intn(8) // cf, rn, fe bits
		rec := M{"fam": "reorder", "for": "C16", "id": id, "src": src, "tree": t, "k": k, "m": maskRec(other), "intmap": intmap}
		vc := M{}
		for _, v := range varNames {
			vc[v] = fmt.Sprint(eff(M0, v, true))
		}
		rec["vcost"] = vc
		ic := M{}
		if intmap {
			for kk, v := range M0 {
				ic[kk] = int(v)
			}
		}
		rec["icosts"] = ic
		// how the options reach the compiler: programmatically, by a ;;;; directive, or by a directive
		// that overrides options saying the opposite (the cost table is the config's in every case)
		how := []string{"", "", "dir", "mix"}[r.Intn(4)]
		rec["how"] = how
		obs := func(mask int, costs map[string]float64) M {
			c := compileVariant(src, ConfOpts{Mask: mask, Costs: costs, How: how, Spell: r.Intn(36)}, false)
			o := M{"cout": c.rec["cout"], "dok": false}
			if c.expr != nil && c.rec["dok"] == true {
				o["dok"], o["dtree"] = true, c.rec["dtree"]
			}
			return o
		}
		rec["off"] = obs(other, M0)
		rec["on"] = obs(other|8, M0)
		rec["raised"] = obs(other|8, M1)
		rec["huge"] = obs(other|8, M2)
		rec["costs"] = costsName(M0)
		emit(rec)
	}
}

func init() { families["reorder"] = famReorder }
