package main

// Family "ops": single-operator expressions for the operator-table properties
//   -for C17  in / overlap over lists on both sides of the 100-element switch
//   -for C18  scalar operators over the int64 extremes, all aliases, all arities
//   -for C19  version and date encodings
// Integers are always recorded as eight limbs ("w").

import (
	"fmt"
	"math"
	"math/rand"
	"os"
	"strings"
	"time"

	"github.com/onheap/eval"
)

func tvw(v interface{}) M {
	switch x := v.(type) {
	case int64:
		return M{"t": "w", "v": limbs(x)}
	case int:
		return M{"t": "w", "v": limbs(int64(x))}
	}
	return tv(v)
}

func outcomeW(v interface{}, err error) M {
	if err != nil {
		return te(err)
	}
	return tvw(v)
}

// srcLit renders a value as a literal of prefix notation ("" if it has none).
func srcLit(v interface{}) string {
	switch x := v.(type) {
	case bool:
		return fmt.Sprint(x)
	case int64:
		return fmt.Sprint(x)
	case string:
		return `"` + x + `"`
	case []int64:
		if len(x) == 0 {
			return "" // () is the empty STRING list literal
		}
		var p []string
		for _, e := range x {
			p = append(p, fmt.Sprint(e))
		}
		return "(" + strings.Join(p, " ") + ")"
	case []string:
		var p []string
		for _, e := range x {
			p = append(p, `"`+e+`"`)
		}
		return "(" + strings.Join(p, " ") + ")"
	}
	return ""
}

var pnames = []string{"x", "y", "z", "n", "m", "s", "l", "e"}

// callOp evaluates (op p1 .. pk) with the parameters as literals ("lit": folded at compile
// time), as variables ("var") or as variables under FastEvaluation ("fast").
func callOp(opn string, ps []interface{}, path string) M {
	src := "(" + opn
	env := Env{}
	// "m<mask>:<pattern>": operand i is a literal where the pattern has 'l' and a variable where it has 'v',
	// compiled under the option subset <mask> (a constant next to a variable is what partial folding sees)
	pattern := ""
	mask := 0
	if strings.HasPrefix(path, "m") && strings.Contains(path, ":") {
		fmt.Sscanf(path[1:strings.Index(path, ":")], "%d", &mask)
		pattern = path[strings.Index(path, ":")+1:]
	}
	for i, p := range ps {
		if path == "lit" || (i < len(pattern) && pattern[i] == 'l') {
			l := srcLit(p)
			if l == "" {
				return M{"t": "skip", "v": "no literal"}
			}
			src += " " + l
		} else {
			src += " " + pnames[i]
			env[pnames[i]] = p
		}
	}
	src += ")"
	switch path {
	case "fast":
		mask = 4
	case "lit":
		mask = 1
	}
	l := &Log{Phase: "compile"}
	cc, _ := newConf(ConfOpts{Mask: mask}, l)
	var e *eval.Expr
	var err error
	p := safely(func() M { e, err = eval.Compile(cc, src); return nil })
	if p != nil {
		return p
	}
	if err != nil {
		return M{"t": "ce", "v": "compile-error", "msg": err.Error()}
	}
	return safely(func() M {
		v, err := e.Eval(&eval.Ctx{VariableFetcher: &Fetcher{Vals: env}})
		return outcomeW(v, err)
	})
}

// callTry: TryEval of (opn p1..pn) with the un-th operand's variable unavailable.
func callTry(opn string, ps []interface{}, path string, un int) M {
	src := "(" + opn
	env := Env{}
	avail := map[string]bool{}
	for i, p := range ps {
		src += " " + pnames[i]
		env[pnames[i]] = p
		avail[pnames[i]] = i != un
	}
	src += ")"
	mask := 0
	if path == "fast" {
		mask = 4
	}
	cc, _ := newConf(ConfOpts{Mask: mask}, &Log{Phase: "compile"})
	e, err := eval.Compile(cc, src)
	if err != nil {
		return M{"t": "ce", "v": "compile-error", "msg": err.Error()}
	}
	return safely(func() M {
		v, err := e.TryEval(&eval.Ctx{VariableFetcher: &Fetcher{Vals: env, Avail: avail}})
		return outcomeW(v, err)
	})
}

func famOps() {
	switch *fFor {
	case "C17":
		opsC17()
	case "C18":
		opsC18()
	case "C19":
		opsC19()
	}
}

// ------------------------------------------------------------------ C18

var aliasGroups = [][]string{
	{"add", "+"}, {"sub", "-"}, {"mul", "*"}, {"div", "/"}, {"mod", "%"},
	{"and", "&", "&&"}, {"or", "|", "||"}, {"xor"}, {"not", "!"},
	{"eq", "=", "=="}, {"ne", "!="}, {"gt", ">"}, {"lt", "<"}, {"ge", ">="}, {"le", "<="}, {"between"},
}

func opsC18() {
	r := rand.New(rand.NewSource(*fSeed))
	id := *fIDBase - 1
	ints := []interface{}{int64(math.MinInt64), int64(math.MinInt64 + 1), int64(-2), int64(-1), int64(0), int64(1), int64(2),
		int64(math.MaxInt64 - 1), int64(math.MaxInt64), int64(3037000500), int64(-4294967296)}
	others := []interface{}{true, false, "a", []int64{1}, nil}
	thorough := *fTier == "thorough"
	emitCall := func(group []string, ps []interface{}) {
		id++
		pr := []interface{}{}
		for _, p := range ps {
			pr = append(pr, tvw(p))
		}
		outs := []interface{}{}
		paths := []string{"var", "fast", "lit"}
		// some operands literal, the others variables, with and without the other optimizers (what partial constant
		// folding sees); not for and/or/xor/not, whose constant operands legitimately decide without the others (C10)
		if g0 := group[0]; len(ps) >= 2 && g0 != "and" && g0 != "or" && g0 != "xor" && g0 != "not" {
			for _, m := range []string{"m1:", "m15:"} {
				pat := make([]byte, len(ps))
				for {
					nl := 0
					for j := range pat {
						pat[j] = "lv"[r.Intn(2)]
						if pat[j] == 'l' {
							nl++
						}
					}
					if nl > 0 && nl < len(ps) {
						break
					}
				}
				paths = append(paths, m+string(pat))
			}
			if len(ps) >= 3 {
				paths = append(paths, "m1:v"+strings.Repeat("l", len(ps)-1))
			}
		}
		for _, name := range group {
			for _, path := range paths {
				if path == "fast" && len(ps) != 2 {
					continue
				}
				o := callOp(name, ps, path)
				if o["t"] == "skip" {
					continue
				}
				outs = append(outs, M{"name": name, "path": path, "res": o})
			}
		}
		emit(M{"fam": "ops", "for": "C18", "kind": "call", "id": id, "canon": group[0], "ps": pr, "outs": outs,
			"src": "(" + group[0] + " ...)"})
	}
	pick := func(pool []interface{}) interface{} { return pool[r.Intn(len(pool))] }
	for _, group := range aliasGroups {
		isLogic := group[0] == "and" || group[0] == "or" || group[0] == "xor" || group[0] == "not"
		base := ints
		if isLogic {
			base = []interface{}{true, false}
		}
		// arity 0 and 1: every value
		emitCall(group, nil)
		for _, a := range append(append([]interface{}{}, base...), others...) {
			emitCall(group, []interface{}{a})
		}
		// arity 2: all pairs of the base domain, and wrong types at either position
		for _, a := range base {
			for _, b := range base {
				emitCall(group, []interface{}{a, b})
			}
			for _, o := range others {
				emitCall(group, []interface{}{a, o})
				emitCall(group, []interface{}{o, a})
			}
		}
		// the one operator with exactly three operands: every triple of the base domain
		if group[0] == "between" {
			for _, a := range base {
				for _, b := range base {
					for _, c := range base {
						emitCall(group, []interface{}{a, b, c})
					}
				}
			}
		}
		// arity 3..5: sampled vectors, zero divisors and wrong types at every position
		n := 150
		if thorough {
			n = 3000
		}
		for i := 0; i < n; i++ {
			k := 3 + r.Intn(3)
			ps := make([]interface{}, k)
			for j := range ps {
				ps[j] = pick(base)
			}
			switch r.Intn(4) {
			case 0:
				ps[r.Intn(k)] = pick(others)
			case 1:
				if !isLogic {
					ps[1+r.Intn(k-1)] = int64(0)
				}
			}
			emitCall(group, ps)
		}
	}
	// every alias behaves like its named form under TryEval too: one operand unavailable
	for _, group := range aliasGroups {
		if len(group) < 2 {
			continue
		}
		isLogic := group[0] == "and" || group[0] == "or" || group[0] == "not"
		base := []interface{}{int64(0), int64(1), int64(-1), int64(math.MaxInt64)}
		if isLogic {
			base = []interface{}{true, false}
		}
		for k := 1; k <= 3; k++ {
			if group[0] == "not" && k > 1 {
				continue
			}
			total := 1
			for j := 0; j < k; j++ {
				total *= len(base)
			}
			for c := 0; c < total; c++ {
				ps := make([]interface{}, k)
				x := c
				for j := range ps {
					ps[j] = base[x%len(base)]
					x /= len(base)
				}
				for un := 0; un < k; un++ {
					id++
					pr := []interface{}{}
					for _, p := range ps {
						pr = append(pr, tvw(p))
					}
					outs := []interface{}{}
					for _, name := range group {
						for _, path := range []string{"var", "fast"} {
							if path == "fast" && k != 2 {
								continue
							}
							outs = append(outs, M{"name": name, "path": path, "res": callTry(name, ps, path, un)})
						}
					}
					emit(M{"fam": "ops", "for": "C18", "kind": "tryalias", "id": id, "canon": group[0], "ps": pr, "un": un + 1, "outs": outs,
						"src": fmt.Sprintf("TryEval (%s ...) operand %d unavailable", group[0], un+1)})
				}
			}
		}
	}
	// integer literals at the edge of int64 and beyond it: the digits go to the judge, which decides whether they fit
	for _, lit := range []string{"9223372036854775807", "9223372036854775808", "-9223372036854775808", "-9223372036854775809",
		"18446744073709551616", "18446744073709551617", "10000000000000000000", "99999999999999999999", "-18446744073709551615",
		"0000000000000000000000001", "00000000009223372036854775807", "1", "-1", "340282366920938463463374607431768211457",
		"9223372036854775806", "-9223372036854775807", "123456789012345678901234567890"} {
		neg := strings.HasPrefix(lit, "-")
		digits := []interface{}{}
		for _, c := range strings.TrimPrefix(lit, "-") {
			digits = append(digits, int(c-'0'))
		}
		id++
		outs := []interface{}{}
		for _, how := range []string{"eq1", "plus0", "inlist", "infix"} {
			src, infix := "", false
			switch how {
			case "eq1":
				src = "(= " + lit + " 1)"
			case "plus0":
				src = "(+ n " + lit + ")"
			case "inlist":
				src = "(in n (1 " + lit + "))"
			case "infix":
				src, infix = "n == "+lit, true
			}
			for _, mask := range []int{0, 15} {
				cc, _ := newConf(ConfOpts{Mask: mask, Infix: infix}, &Log{Phase: "compile"})
				var e *eval.Expr
				var err error
				o := M{"how": how, "mask": mask, "src": src}
				if p := safely(func() M { e, err = eval.Compile(cc, src); return nil }); p != nil {
					o["cout"] = "panic"
				} else if err != nil {
					o["cout"] = "ce"
				} else {
					o["cout"] = "ok"
					o["res"] = safely(func() M {
						v, err := e.Eval(&eval.Ctx{VariableFetcher: &Fetcher{Vals: Env{"n": int64(1)}}})
						return outcomeW(v, err)
					})
				}
				if _, ok := o["res"]; !ok {
					o["res"] = M{"t": "nil", "v": "nil"}
				}
				outs = append(outs, o)
			}
		}
		emit(M{"fam": "ops", "for": "C18", "kind": "biglit", "id": id, "neg": neg, "digits": digits, "outs": outs, "src": "literal " + lit})
	}
	// division / modulo pairs, judged relationally
	pairs := [][2]int64{}
	for _, a := range ints {
		for _, b := range ints {
			pairs = append(pairs, [2]int64{a.(int64), b.(int64)})
		}
	}
	n := 600
	if thorough {
		n = 20000
	}
	for i := 0; i < n; i++ {
		a := int64(r.Uint64())
		b := int64(r.Uint64())
		switch r.Intn(4) {
		case 0:
			b = int64(r.Intn(2000) - 1000)
		case 1:
			b >>= uint(r.Intn(63))
		case 2:
			a >>= uint(r.Intn(63))
			b >>= uint(r.Intn(63))
		}
		pairs = append(pairs, [2]int64{a, b})
	}
	for _, p := range pairs {
		id++
		rec := M{"fam": "ops", "for": "C18", "kind": "divmod", "id": id, "a": tvw(p[0]), "b": tvw(p[1]), "src": "(/ a b) (% a b)"}
		rec["q"] = callOp([]string{"/", "div"}[r.Intn(2)], []interface{}{p[0], p[1]}, []string{"var", "fast", "lit"}[r.Intn(3)])
		rec["r"] = callOp([]string{"%", "mod"}[r.Intn(2)], []interface{}{p[0], p[1]}, []string{"var", "fast", "lit"}[r.Intn(3)])
		emit(rec)
	}
	// fold law on observed values: (op a b c) = (op (op a b) c)
	for _, opn := range []string{"+", "-", "*", "/", "%"} {
		for i := 0; i < n/3; i++ {
			a, b, c := pick(ints), pick(ints), pick(ints)
			if r.Intn(2) == 0 {
				a, b, c = int64(r.Uint64()), int64(r.Uint64())>>uint(r.Intn(63)), int64(r.Uint64())>>uint(r.Intn(63))
			}
			id++
			ab := callOp(opn, []interface{}{a, b}, "var")
			rec := M{"fam": "ops", "for": "C18", "kind": "fold", "id": id, "op": opn, "src": "(" + opn + " a b c)",
				"ab": ab, "abc": callOp(opn, []interface{}{a, b, c}, []string{"var", "m1:vll", "m15:vll", "m1:lvl", "m1:llv", "lit"}[r.Intn(6)])}
			if ab["t"] == "w" {
				rec["ab_c"] = callOp(opn, []interface{}{goVal(ab), c}, "var")
			} else {
				rec["ab_c"] = ab
			}
			emit(rec)
		}
	}
}

// ------------------------------------------------------------------ C17

func opsC17() {
	r := rand.New(rand.NewSource(*fSeed))
	id := *fIDBase - 1
	thorough := *fTier == "thorough"
	// base cases over three elements, then padded across the real switch
	var bases [][]int64
	for n := 0; n <= 3; n++ {
		var rec func(p []int64)
		rec = func(p []int64) {
			if len(p) == n {
				bases = append(bases, append([]int64{}, p...))
				return
			}
			for e := int64(1); e <= 3; e++ {
				rec(append(p, e))
			}
		}
		rec(nil)
	}
	strOf := func(a []int64) []string {
		s := make([]string, len(a))
		for i, e := range a {
			s[i] = fmt.Sprint("e", e)
		}
		return s
	}
	pad := func(a []int64, n int, base int64, where int) []int64 {
		p := make([]int64, n)
		for i := range p {
			p[i] = base + int64(i)
		}
		switch where {
		case 0:
			return append(append([]int64{}, a...), p...)
		case 1:
			return append(p, a...)
		}
		h := n / 2
		return append(append(append([]int64{}, p[:h]...), a...), p[h:]...)
	}
	emitOverlap := func(A, B interface{}, note string) {
		id++
		rec := M{"fam": "ops", "for": "C17", "kind": "overlap", "id": id, "a": tv(A), "b": tv(B), "src": "(overlap A B) " + note}
		outs := []interface{}{}
		for _, path := range []string{"var", "fast", "lit", "m1:vl", "m1:lv", "m15:vl", "m15:lv", "m0:lv"} {
			ab := callOp("overlap", []interface{}{A, B}, path)
			ba := callOp("overlap", []interface{}{B, A}, path)
			if ab["t"] == "skip" {
				continue
			}
			outs = append(outs, M{"path": path, "ab": ab, "ba": ba})
		}
		rec["outs"] = outs
		emit(rec)
	}
	emitIn := func(v, L interface{}, note string) {
		id++
		rec := M{"fam": "ops", "for": "C17", "kind": "in", "id": id, "a": tv(v), "b": tv(L), "src": "(in v L) " + note}
		outs := []interface{}{}
		for _, path := range []string{"var", "fast", "lit", "m1:vl", "m1:lv", "m15:vl", "m15:lv", "m0:vl"} {
			o := callOp("in", []interface{}{v, L}, path)
			if o["t"] == "skip" {
				continue
			}
			outs = append(outs, M{"path": path, "res": o})
		}
		rec["outs"] = outs
		emit(rec)
	}
	// one compiled program, one list buffer whose contents change in place between evaluations (a caller
	// that recycles its slices): every evaluation answers for the contents at the time of the call
	reuse := func(opn string, mask int, n int, str bool) {
		l := &Log{Phase: "compile"}
		cc, _ := newConf(ConfOpts{Mask: mask}, l)
		e, err := eval.Compile(cc, "("+opn+" x y)")
		if err != nil {
			fmt.Fprintln(os.Stderr, "recycled-buffer program does not compile:", err)
			os.Exit(2)
		}
		ibuf, sbuf := make([]int64, n), make([]string, n)
		for round := 0; round < 4; round++ {
			for i := range ibuf {
				ibuf[i] = int64(round*1000 + i)
				sbuf[i] = fmt.Sprint("e", ibuf[i])
			}
			probe := int64((round%2)*1000 + n/2) // in the buffer in rounds 0 and 1 only... and of round 0's contents in round 2
			var A, B interface{} = probe, ibuf
			if str {
				A, B = fmt.Sprint("e", probe), sbuf
			}
			if opn == "overlap" {
				if str {
					A = []string{"zz", fmt.Sprint("e", probe)}
				} else {
					A = []int64{-5, probe}
				}
			}
			id++
			rec := M{"fam": "ops", "for": "C17", "kind": opn, "id": id, "a": tv(A), "b": tv(B), "src": "(" + opn + " a b) recycled buffer"}
			o := safely(func() M {
				v, err := e.Eval(&eval.Ctx{VariableFetcher: &Fetcher{Vals: Env{"x": A, "y": B}}})
				return outcomeW(v, err)
			})
			if opn == "overlap" {
				o2 := safely(func() M {
					v, err := e.Eval(&eval.Ctx{VariableFetcher: &Fetcher{Vals: Env{"x": B, "y": A}}})
					return outcomeW(v, err)
				})
				rec["outs"] = []interface{}{M{"path": "var", "ab": o, "ba": o2}}
			} else {
				rec["outs"] = []interface{}{M{"path": "var", "res": o}}
			}
			emit(rec)
		}
	}
	for _, n := range []int{3, 63, 64, 65, 100, 128, 300} {
		for _, mask := range []int{0, 4} {
			for _, str := range []bool{false, true} {
				reuse("in", mask, n, str)
				reuse("overlap", mask, n, str)
			}
		}
	}
	// the same questions with the elements renamed injectively into the far corners of the element
	// types (membership and intersection only depend on which elements are equal): int64 extremes and
	// values far apart, long strings that share long prefixes.  The judge sees the small names.
	intMaps := []struct {
		note string
		f    func(int64) int64
	}{
		{"x -> MaxInt64 - x", func(x int64) int64 { return math.MaxInt64 - x }},
		{"x -> MinInt64 + x", func(x int64) int64 { return math.MinInt64 + x }},
		{"even x -> MaxInt64 - x, odd x -> -x", func(x int64) int64 {
			if x%2 == 0 {
				return math.MaxInt64 - x
			}
			return -x
		}},
		{"x -> x * 2^40", func(x int64) int64 { return x << 40 }},
		{"x -> x * 2^32 + 1", func(x int64) int64 { return x<<32 + 1 }},
	}
	strMaps := []struct {
		note string
		f    func(int64) string
	}{
		{"x -> 70 x's + x", func(x int64) string { return strings.Repeat("x", 70) + fmt.Sprint(x) }},
		{"x -> x + 64 y's", func(x int64) string { return fmt.Sprint(x) + strings.Repeat("y", 64) }},
		{"even x -> 128 chars, odd x -> short", func(x int64) string {
			if x%2 == 0 {
				return strings.Repeat("ab", 62) + fmt.Sprintf("%04d", x)
			}
			return fmt.Sprint("s", x)
		}},
		{"x -> 63/64/65 chars by x mod 3", func(x int64) string { return fmt.Sprintf("%0*d", 63+int(x%3), x) }},
	}
	emitMapped := func(A, B []int64) {
		for _, m := range intMaps {
			ra, rb := make([]int64, len(A)), make([]int64, len(B))
			for i, x := range A {
				ra[i] = m.f(x)
			}
			for i, x := range B {
				rb[i] = m.f(x)
			}
			id++
			rec := M{"fam": "ops", "for": "C17", "kind": "overlap", "id": id, "a": tv(A), "b": tv(B), "src": "(overlap A B) int, elements renamed " + m.note}
			outs := []interface{}{}
			for _, path := range []string{"var", "fast"} {
				outs = append(outs, M{"path": path, "ab": callOp("overlap", []interface{}{ra, rb}, path), "ba": callOp("overlap", []interface{}{rb, ra}, path)})
			}
			rec["outs"] = outs
			emit(rec)
			if len(A) > 0 {
				id++
				emit(M{"fam": "ops", "for": "C17", "kind": "in", "id": id, "a": tv(A[0]), "b": tv(B), "src": "(in v L) int, elements renamed " + m.note,
					"outs": []interface{}{M{"path": "var", "res": callOp("in", []interface{}{m.f(A[0]), rb}, "var")}}})
			}
		}
		for _, m := range strMaps {
			ra, rb := make([]string, len(A)), make([]string, len(B))
			for i, x := range A {
				ra[i] = m.f(x)
			}
			for i, x := range B {
				rb[i] = m.f(x)
			}
			id++
			rec := M{"fam": "ops", "for": "C17", "kind": "overlap", "id": id, "a": tv(strOf(A)), "b": tv(strOf(B)), "src": "(overlap A B) string, elements renamed " + m.note}
			outs := []interface{}{}
			for _, path := range []string{"var", "fast"} {
				outs = append(outs, M{"path": path, "ab": callOp("overlap", []interface{}{ra, rb}, path), "ba": callOp("overlap", []interface{}{rb, ra}, path)})
			}
			rec["outs"] = outs
			emit(rec)
			if len(A) > 0 {
				id++
				emit(M{"fam": "ops", "for": "C17", "kind": "in", "id": id, "a": tv(strOf(A[:1])[0]), "b": tv(strOf(B)), "src": "(in v L) string, elements renamed " + m.note,
					"outs": []interface{}{M{"path": "var", "res": callOp("in", []interface{}{m.f(A[0]), rb}, "var")}}})
			}
		}
	}
	for _, a := range bases {
		for _, b := range bases {
			if len(a) == 0 || len(b) == 0 || (!thorough && r.Intn(8) > 0) {
				continue
			}
			for _, tot := range []int{0, 100, 140} {
				need := tot - len(a) - len(b)
				if need < 0 {
					need = 0
				}
				where := r.Intn(3)
				emitMapped(pad(a, need, 1000, where), b) // the short list keeps its few far-apart elements
				emitMapped(a, pad(b, need, 5000, (where+1)%3))
				emitMapped(pad(a, need/2, 1000, where), pad(b, need-need/2, 5000, where))
			}
		}
	}
	totals := []int{0, 99, 100, 101, 250}
	for _, a := range bases {
		for _, b := range bases {
			if !thorough && len(a)+len(b) > 2 && r.Intn(6) > 0 {
				continue
			}
			for _, tot := range totals {
				need := tot - len(a) - len(b)
				if tot == 0 {
					need = 0
				} else if need < 0 {
					continue
				}
				for _, split := range []int{0, 1, 2} { // padding on the left list, the right list, both
					if tot == 0 && split > 0 {
						continue
					}
					na, nb := 0, 0
					switch split {
					case 0:
						na = need
					case 1:
						nb = need
					default:
						na, nb = need/2, need-need/2
					}
					where := r.Intn(3)
					A := pad(a, na, 1000, where)
					B := pad(b, nb, 5000, (where+1)%3)
					emitOverlap(A, B, "int")
					emitOverlap(strOf(A), strOf(B), "string")
				}
			}
		}
	}
	// empty literal, typed empties, mismatches, converted element types, sets
	el := []string{}
	for _, other := range []interface{}{[]int64{1, 2}, []int64{}, []string{"a"}, []string{}, pad(nil, 120, 1, 0), strOf(pad(nil, 120, 1, 0))} {
		emitOverlap(el, other, "empty literal")
		emitOverlap([]int64{}, other, "empty int list")
	}
	emitOverlap([]int64{1}, []string{"a"}, "mismatch")
	emitOverlap([]string{"a"}, []int64{1, 2, 3}, "mismatch")
	emitOverlap(int64(1), []int64{1}, "scalar")
	emitOverlap([]int{1, 2}, []int64{2, 3}, "[]int")
	emitOverlap([]int32{7}, []int{7}, "[]int32")
	for _, L := range []interface{}{[]int64{1, 2, 3}, []int64{}, pad([]int64{2}, 150, 1000, 2), []int{3, 4}, []int32{5},
		map[int64]struct{}{1: {}, 4: {}}, []string{"a", "b"}, []string{}, map[string]struct{}{"a": {}}, strOf(pad([]int64{2}, 150, 1000, 1)), int64(3), "a", nil} {
		for _, v := range []interface{}{int64(1), int64(2), int64(4), int64(5), "a", "e2", "zz", true, nil, []int64{1}} {
			emitIn(v, L, "")
		}
	}
}

// ------------------------------------------------------------------ C19

func opsC19() {
	r := rand.New(rand.NewSource(*fSeed))
	id := *fIDBase - 1
	thorough := *fTier == "thorough"
	comps := []int{0, 1, 2, 9, 10, 99, 100, 9998, 9999}
	bad := []string{"10000", "12345", "x", "", "1a"}
	mkVer := func() ([]interface{}, string) {
		n := 1 + r.Intn(4)
		cs := []interface{}{}
		var parts []string
		for i := 0; i < n; i++ {
			if r.Intn(12) == 0 {
				b := bad[r.Intn(len(bad))]
				parts = append(parts, b)
				switch b {
				case "10000":
					cs = append(cs, 10000)
				case "12345":
					cs = append(cs, 12345)
				default:
					cs = append(cs, -1)
				}
			} else {
				c := comps[r.Intn(len(comps))]
				if r.Intn(5) == 0 {
					c = r.Intn(10000)
				}
				cs = append(cs, c)
				if r.Intn(10) == 0 {
					parts = append(parts, fmt.Sprintf("%04d", c)) // leading zeros
				} else {
					parts = append(parts, fmt.Sprint(c))
				}
			}
		}
		return cs, strings.Join(parts, ".")
	}
	nver := 1500
	if thorough {
		nver = 40000
	}
	for i := 0; i < nver; i++ {
		ca, ta := mkVer()
		cb, tb := mkVer()
		if i%7 == 0 {
			cb, tb = ca, ta
		}
		N := []int64{-1, 0, 1, 2, 3, 4, 5}[r.Intn(7)] // -1: argument absent
		if r.Intn(6) == 0 {
			// lengths that are only in range after some narrowing conversion
			N = []int64{255, 256, 257, 258, 259, 260, 261, 512, 513, -252, -253, -255, -256, 65537, 65540, 1<<32 + 1, 1<<32 + 3,
				math.MaxInt64, math.MinInt64, math.MinInt64 + 2}[r.Intn(20)]
		}
		if N >= 1 && N <= 4 && (len(ca) > int(N) || len(cb) > int(N)) {
			// the property speaks about versions with up to N components
			if r.Intn(4) > 0 {
				N = 4
			}
		}
		opn := []string{"version", "to_version", "t_version"}[r.Intn(3)]
		path := []string{"var", "lit"}[r.Intn(2)]
		id++
		enc := func(t string) M {
			ps := []interface{}{t}
			if N != -1 {
				ps = append(ps, N)
			}
			return callOp(opn, ps, path)
		}
		// (the model only asks whether the length is within 1..4: far-away lengths are clamped for TLC's integers)
		nModel := N
		if nModel > 1000000 {
			nModel = 1000000
		} else if nModel < -1000000 {
			nModel = -1000000
		}
		rec := M{"fam": "ops", "for": "C19", "kind": "ver", "id": id, "a": ca, "b": cb, "ta": ta, "tb": tb, "n": nModel, "nraw": fmt.Sprint(N), "op": opn,
			"src": fmt.Sprintf("(< (%s %q %d) (%s %q %d))", opn, ta, N, opn, tb, N), "ea": enc(ta), "eb": enc(tb)}
		// the comparison through the engine
		arg := ""
		if N != -1 {
			arg = fmt.Sprint(" ", N)
		}
		cmp := M{}
		for _, c := range []string{"<", "=", ">"} {
			src := fmt.Sprintf("(%s (%s a%s) (%s b%s))", c, opn, arg, opn, arg)
			l := &Log{Phase: "compile"}
			cc, _ := newConf(ConfOpts{Mask: r.Intn(16), Undefined: true}, l)
			e, err := eval.Compile(cc, src)
			if err != nil {
				cmp[c] = M{"t": "ce", "v": err.Error()}
				continue
			}
			cmp[c] = safely(func() M {
				v, err := e.Eval(&eval.Ctx{VariableFetcher: &Fetcher{Vals: Env{"a": ta, "b": tb}}})
				return outcome(v, err)
			})
		}
		rec["lt"], rec["eq"], rec["gt"] = cmp["<"], cmp["="], cmp[">"]
		emit(rec)
	}
	// dates
	type lay struct{ id, layout string }
	dateLayouts := []lay{{"d0", "2006-01-02"}, {"d1", "2006/01/02"}, {"d2", "02-01-2006"}, {"d3", "Jan 2, 2006"}}
	timeLayouts := []lay{{"t0", "2006-01-02 15:04:05"}, {"t1", "2006-01-02T15:04:05"}, {"t2", "02/01/2006 15.04.05"},
		{"t3", "2006-01-02T15:04:05Z07:00"}, {"t4", "2006-01-02 15:04:05 -0700"}}
	zones := []struct {
		colon, plain string
		secs         int
	}{{"Z", "+0000", 0}, {"+00:00", "+0000", 0}, {"+09:00", "+0900", 9 * 3600}, {"-05:00", "-0500", -5 * 3600},
		{"+05:30", "+0530", 5*3600 + 1800}, {"-00:30", "-0030", -1800}, {"+14:00", "+1400", 14 * 3600}, {"-12:00", "-1200", -12 * 3600}}
	years := []int{1, 1900, 1904, 1969, 1970, 1999, 2000, 2023, 2024, 2038, 2100, 2400, 9999}
	// month ends, existing and not: February in leap, non-leap and century years, the 31st of 30-day months
	monthEnds := [][2]int{{2, 28}, {2, 29}, {2, 30}, {2, 31}, {4, 30}, {4, 31}, {6, 31}, {9, 31}, {11, 31}, {12, 31}, {1, 31}, {3, 31}}
	ndate := 1200
	if thorough {
		ndate = 30000
	}
	for i := 0; i < ndate; i++ {
		y := years[r.Intn(len(years))]
		if r.Intn(3) == 0 {
			y = 1 + r.Intn(9999)
		}
		m := 1 + r.Intn(12)
		d := []int{1, 28, 29, 30, 31, 15}[r.Intn(6)]
		if r.Intn(3) == 0 {
			me := monthEnds[r.Intn(len(monthEnds))]
			m, d = me[0], me[1]
		}
		hh, mi, ss := []int{0, 23, 3, 12}[r.Intn(4)], []int{0, 59, 14}[r.Intn(3)], []int{0, 59, 7, 8}[r.Intn(4)]
		withTime := r.Intn(2) == 0
		if !withTime {
			hh, mi, ss = 0, 0, 0
		}
		// the text is produced from the fields digit by digit (so invalid days such as Feb 30 are expressible)
		var L lay
		var text string
		off := 0
		months := []string{"Jan", "Feb", "Mar", "Apr", "May", "Jun", "Jul", "Aug", "Sep", "Oct", "Nov", "Dec"}
		if withTime {
			L = timeLayouts[r.Intn(len(timeLayouts))]
			switch L.id {
			case "t0":
				text = fmt.Sprintf("%04d-%02d-%02d %02d:%02d:%02d", y, m, d, hh, mi, ss)
			case "t1":
				text = fmt.Sprintf("%04d-%02d-%02dT%02d:%02d:%02d", y, m, d, hh, mi, ss)
			case "t2":
				text = fmt.Sprintf("%02d/%02d/%04d %02d.%02d.%02d", d, m, y, hh, mi, ss)
			case "t3":
				z := zones[r.Intn(len(zones))]
				off = z.secs
				text = fmt.Sprintf("%04d-%02d-%02dT%02d:%02d:%02d%s", y, m, d, hh, mi, ss, z.colon)
			case "t4":
				z := zones[r.Intn(len(zones))]
				off = z.secs
				text = fmt.Sprintf("%04d-%02d-%02d %02d:%02d:%02d %s", y, m, d, hh, mi, ss, z.plain)
			}
		} else {
			L = dateLayouts[r.Intn(len(dateLayouts))]
			switch L.id {
			case "d0":
				text = fmt.Sprintf("%04d-%02d-%02d", y, m, d)
			case "d1":
				text = fmt.Sprintf("%04d/%02d/%02d", y, m, d)
			case "d2":
				text = fmt.Sprintf("%02d-%02d-%04d", d, m, y)
			case "d3":
				text = fmt.Sprintf("%s %d, %04d", months[m-1], d, y)
			}
		}
		broken := ""
		switch r.Intn(14) {
		case 0:
			if strings.Contains(L.layout, "-") {
				text, broken = strings.Replace(text, "-", ".", 1), "separator"
			}
		case 1:
			text, broken = text+"x", "trailing"
		case 2:
			text, broken = "", "empty"
		}
		isDefault := L.id == "d0" || L.id == "t0"
		var opn string
		var ps []interface{}
		if withTime {
			if isDefault {
				opn = []string{"datetime", "to_datetime", "td_time"}[r.Intn(3)]
				ps = []interface{}{text}
				if opn != "td_time" && r.Intn(3) == 0 {
					ps = append(ps, L.layout)
				}
			} else {
				opn = []string{"datetime", "to_datetime", "t_time"}[r.Intn(3)]
				ps = []interface{}{text, L.layout}
			}
		} else {
			if isDefault {
				opn = []string{"date", "to_date", "td_date"}[r.Intn(3)]
				ps = []interface{}{text}
				if opn != "td_date" && r.Intn(3) == 0 {
					ps = append(ps, L.layout)
				}
			} else {
				opn = []string{"date", "to_date", "t_date"}[r.Intn(3)]
				ps = []interface{}{text, L.layout}
			}
		}
		id++
		rec := M{"fam": "ops", "for": "C19", "kind": "date", "id": id, "y": y, "mo": m, "d": d, "hh": hh, "mi": mi, "ss": ss,
			"text": text, "layout": L.id, "off": off, "op": opn, "broken": broken, "src": fmt.Sprintf("(%s %q)", opn, text),
			"res": callOp(opn, ps, []string{"var", "lit"}[r.Intn(2)])}
		emit(rec)
	}
	_ = time.Now
}

func init() { families["ops"] = famOps }
