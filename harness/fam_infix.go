package main

// Family "infix" (C15): typed trees rendered to infix (minimal parentheses, random
// redundant parentheses, spaced and minimal spacing) and to prefix; both compiled;
// Dump, DumpTable and results compared.

import (
	"math/rand"
	"strings"

	"github.com/onheap/eval"
)

var infixPrec = map[string]int{"*": 8, "/": 8, "%": 8, "+": 7, "-": 7, "=": 5, "==": 5, "!=": 5, "<": 5, ">": 5, "<=": 5, ">=": 5,
	"&": 4, "&&": 4, "|": 3, "||": 3}

func isInfixBin(t *Tree) bool {
	if t.K != "o" || len(t.Kids) != 2 {
		return false
	}
	_, ok := infixPrec[t.V.(string)]
	return ok
}

func precOf(t *Tree) int {
	if isInfixBin(t) {
		return infixPrec[t.V.(string)]
	}
	if t.K == "o" && t.V.(string) == "!" && len(t.Kids) == 1 {
		return 6
	}
	return 99
}

// infixToks renders t as infix tokens; redundant parentheses with probability pp.
func infixToks(r *rand.Rand, t *Tree, need int, pp int) []string {
	var body []string
	switch {
	case t.K == "v":
		body = []string{t.V.(string)}
	case t.K == "c":
		m := t.V.(M)
		switch m["t"] {
		case "il", "sl":
			body = []string{"["}
			for _, e := range m["v"].([]interface{}) {
				if s, ok := e.(string); ok {
					body = append(body, `"`+s+`"`)
				} else {
					body = append(body, sprint(num(e)))
				}
			}
			body = append(body, "]")
		default:
			if t.Name != "" {
				body = []string{t.Name}
			} else {
				body = []string{litText(m)}
			}
		}
	case isInfixBin(t):
		p := infixPrec[t.V.(string)]
		body = append(body, infixToks(r, t.Kids[0], p, pp)...)
		body = append(body, t.V.(string))
		body = append(body, infixToks(r, t.Kids[1], p+1, pp)...)
	case t.K == "o" && t.V.(string) == "!" && len(t.Kids) == 1:
		body = append([]string{"!"}, infixToks(r, t.Kids[0], 7, pp)...)
	default:
		name := "if"
		if t.K != "if" {
			name = t.V.(string)
		}
		body = []string{name, "("}
		for i, k := range t.Kids {
			if i > 0 {
				body = append(body, ",")
			}
			body = append(body, infixToks(r, k, 0, pp)...)
		}
		body = append(body, ")")
	}
	if precOf(t) < need || (pp > 0 && r.Intn(100) < pp) {
		body = append(append([]string{"("}, body...), ")")
	}
	return body
}

func joinInfix(r *rand.Rand, toks []string, minimal bool) string {
	var sb strings.Builder
	glue := func(s string) bool { return s == "(" || s == ")" || s == "[" || s == "]" || s == "," }
	identStart := func(s string) bool {
		c := s[0]
		return c == '(' || c == '_' || c >= 0x80 || (c >= 'a' && c <= 'z') || (c >= 'A' && c <= 'Z')
	}
	for i, t := range toks {
		if i > 0 {
			prev := toks[i-1]
			need := true
			if glue(prev) || glue(t) {
				need = false
			}
			if prev == "!" && identStart(t) {
				need = false
			}
			if strings.HasPrefix(prev, `"`) {
				need = false
			}
			// inside brackets elements are separated by white space
			if need || !minimal || (!glue(prev) && !glue(t) && prev != "!") {
				if need || (!minimal && r.Intn(3) > 0) {
					sb.WriteString(" ")
				}
			}
		}
		sb.WriteString(t)
	}
	return sb.String()
}

// toInfixOps rewrites a generated tree so that every operator is expressible in infix:
// binary arithmetic / comparison / logic operators with exactly two operands use their
// symbolic alias, `not` becomes `!`, everything else is a call.
func toInfixOps(r *rand.Rand, t *Tree) *Tree {
	n := &Tree{K: t.K, V: t.V, Name: t.Name, Kids: []*Tree{}}
	for _, k := range t.Kids {
		n.Kids = append(n.Kids, toInfixOps(r, k))
	}
	if t.K == "o" {
		sym := map[string][]string{"add": {"+"}, "sub": {"-"}, "mul": {"*"}, "div": {"/"}, "mod": {"%"},
			"and": {"&&", "&"}, "or": {"||", "|"}, "eq": {"==", "="}, "ne": {"!="}, "gt": {">"}, "lt": {"<"}, "ge": {">="}, "le": {"<="}}
		name := t.V.(string)
		// symbolic spellings are binary (unary for !) in infix: other arities use the word
		word := map[string]string{"+": "add", "-": "sub", "*": "mul", "/": "div", "%": "mod", "&&": "and", "&": "and",
			"||": "or", "|": "or", "==": "eq", "=": "eq", "!=": "ne", ">": "gt", "<": "lt", ">=": "ge", "<=": "le", "!": "not"}
		if w, ok := word[name]; ok {
			name = w
			n.V = w
		}
		if name == "not" && len(t.Kids) == 1 {
			n.V = "!"
		} else if alts, ok := sym[name]; ok && len(t.Kids) == 2 && r.Intn(4) > 0 {
			n.V = alts[r.Intn(len(alts))]
		}
	}
	return n
}

func famInfix() {
	r := rand.New(rand.NewSource(*fSeed))
	g := &gen{r: r, c: GenCfg{Custom: true, Alias: true, MaxKids: 3, Lists: true, Strings: true, Consts: true}}
	seen := map[string]bool{}
	id := *fIDBase - 1
	var trees []*Tree
	if *fCases != "" {
		trees = append(trees, readCases(*fCases)...)
	}
	for i := 0; i < *fN; i++ {
		typ := "b"
		if r.Intn(4) == 0 {
			typ = "i"
		}
		t, _ := g.tree(typ, 1+r.Intn(*fDepth))
		if len(t.Kids) == 0 {
			i--
			continue
		}
		trees = append(trees, toInfixOps(r, t))
	}
	for _, t := range trees {
		prefix := t.Src()
		if seen[prefix] {
			continue
		}
		seen[prefix] = true
		id++
		envs := []Env{randEnv(r), randEnv(r), randEnv(r)}
		mask := []int{0, 15, r.Intn(16)}[r.Intn(3)]
		undef := false
		if id%3 == 2 {
			// identifiers spelled with underscores, dots, digits and non-ASCII letters (undefined-variable mode)
			ren := map[string]string{"x": "_u", "y": "v.w", "z": "q1", "n": "n_2", "m": "_", "s": "s.t.u"}
			t = renameVars(t, ren)
			prefix = t.Src()
			undef = true
			for _, e := range envs {
				for from, to := range ren {
					e[to] = e[from]
				}
			}
		}
		obs := func(src string, infix bool) M {
			c := compileVariant(src, ConfOpts{Mask: mask, Infix: infix, Undefined: undef}, false)
			o := M{"cout": c.rec["cout"], "dump": "", "table": "", "dok": false, "res": []interface{}{}}
			if c.expr != nil {
				o["dump"], o["table"] = c.rec["dump"], c.rec["table"]
				if c.rec["dok"] == true {
					o["dok"], o["dtree"] = true, c.rec["dtree"]
				}
				rs := []interface{}{}
				for _, env := range envs {
					rs = append(rs, safely(func() M {
						v, err := c.expr.Eval(&eval.Ctx{VariableFetcher: &Fetcher{Vals: env}})
						return outcome(v, err)
					}))
				}
				o["res"] = rs
			}
			return o
		}
		rec := M{"fam": "infix", "for": "C15", "id": id, "src": prefix, "tree": t, "m": maskRec(mask), "undef": undef, "prefix": obs(prefix, false)}
		vars := []interface{}{}
		for k, spec := range []struct {
			pp      int
			minimal bool
		}{{0, false}, {0, true}, {25, false}, {40, true}} {
			text := joinInfix(r, infixToks(r, t, 0, spec.pp), spec.minimal)
			o := obs(text, true)
			o["text"], o["chars"], o["style"] = text, abstract(text), k
			vars = append(vars, o)
		}
		// a directive-looking comment after the first token (also after a leading `!x`) changes nothing: directives
		// are honoured only before the first token, in infix notation too
		{
			text := joinInfix(r, infixToks(r, t, 0, 0), false)
			if i := strings.IndexByte(text, ' '); i > 0 && !strings.Contains(text[:i], "\"") {
				word := "false"
				if mask == 0 {
					word = "true"
				}
				text = text[:i] + "\n;;;; constant_folding:" + word + ", reduce_nesting:" + word + ", fast_evaluation:" + word + ", reordering:" + word + "\n" + text[i+1:]
				o := obs(text, true)
				o["text"], o["chars"], o["style"] = text, abstract(text), 4
				vars = append(vars, o)
			}
		}
		rec["infix"] = vars
		emit(rec)
	}
}

func renameVars(t *Tree, ren map[string]string) *Tree {
	n := &Tree{K: t.K, V: t.V, Name: t.Name, Kids: []*Tree{}}
	if t.K == "v" {
		if to, ok := ren[t.V.(string)]; ok {
			n.V = to
		}
	}
	for _, k := range t.Kids {
		n.Kids = append(n.Kids, renameVars(k, ren))
	}
	return n
}

func init() { families["infix"] = famInfix }
