package main

// Tagged JSON encoding of values, trees and outcomes.  The harness only records and
// renders; it contains no evaluator.  Everything written here is judged by TLC.

import (
	"encoding/json"
	"errors"
	"fmt"
	"sort"
	"strconv"
	"strings"
	"sync"

	"github.com/onheap/eval"
)

type M = map[string]interface{}

const small = int64(1) << 30

func limbs(x int64) []int {
	u := uint64(x)
	r := make([]int, 8)
	for i := 0; i < 8; i++ {
		r[7-i] = int(u >> (8 * uint(i)) & 0xff)
	}
	return r
}

// tv encodes a value of the engine as a tagged record.
func tv(v interface{}) M {
	switch x := v.(type) {
	case nil:
		return M{"t": "nil", "v": "nil"}
	case bool:
		return M{"t": "b", "v": x}
	case int64:
		if x > -small && x < small {
			return M{"t": "i", "v": x}
		}
		return M{"t": "w", "v": limbs(x)}
	case int:
		return M{"t": "x", "v": "int"} // a Go int is not an engine value (the engine's integers are int64)
	case string:
		return M{"t": "s", "v": x}
	case []int64:
		a := make([]interface{}, 0, len(x))
		for _, e := range x {
			a = append(a, e)
		}
		return M{"t": "il", "v": a}
	case []string:
		a := make([]interface{}, 0, len(x))
		for _, e := range x {
			a = append(a, e)
		}
		return M{"t": "sl", "v": a}
	case map[int64]struct{}:
		ks := make([]int64, 0, len(x))
		for k := range x {
			ks = append(ks, k)
		}
		sort.Slice(ks, func(i, j int) bool { return ks[i] < ks[j] })
		a := make([]interface{}, 0, len(ks))
		for _, e := range ks {
			a = append(a, e)
		}
		return M{"t": "is", "v": a}
	case map[string]struct{}:
		ks := make([]string, 0, len(x))
		for k := range x {
			ks = append(ks, k)
		}
		sort.Strings(ks)
		a := make([]interface{}, 0, len(ks))
		for _, e := range ks {
			a = append(a, e)
		}
		return M{"t": "ss", "v": a}
	}
	if v == eval.DNE {
		return M{"t": "d", "v": "DNE"}
	}
	return M{"t": "x", "v": fmt.Sprintf("%T", v)}
}

// sentinel errors raised by the harness' fetchers and operators
var sentinels = map[string]error{}
var sentinelMu sync.Mutex

func sentinel(kind string) error {
	sentinelMu.Lock()
	defer sentinelMu.Unlock()
	if e, ok := sentinels[kind]; ok {
		return e
	}
	e := errors.New("sentinel<" + kind + ">")
	sentinels[kind] = e
	return e
}

// errKind classifies an error: sentinel identity first (errors.Is), then the class of
// built-in error by its message.
func errKind(err error) string {
	sentinelMu.Lock()
	defer sentinelMu.Unlock()
	for k, s := range sentinels {
		if errors.Is(err, s) {
			return k
		}
	}
	if errors.Is(err, eval.ErrDNE) {
		return "dne"
	}
	m := err.Error()
	switch {
	case strings.Contains(m, "divide by zero"):
		return "div0"
	case strings.Contains(m, "unexpected params count"):
		return "count"
	case strings.Contains(m, "unexpected param type"):
		return "type"
	case strings.Contains(m, "condition node returns a non bool"):
		return "cond"
	case strings.Contains(m, "operator execuation error"):
		return "exec"
	}
	return "other"
}

func te(err error) M { return M{"t": "e", "v": errKind(err), "msg": err.Error()} }

// outcome of a call returning (Value, error)
func outcome(v interface{}, err error) M {
	if err != nil {
		return te(err)
	}
	return tv(v)
}

// ---- trees ----

type Tree struct {
	K    string      `json:"k"`
	V    interface{} `json:"v"`
	Kids []*Tree     `json:"kids"`
	Name string      `json:"name,omitempty"` // source spelling of a ConstantMap constant
}

func (t *Tree) UnmarshalJSON(b []byte) error {
	var raw struct {
		K    string          `json:"k"`
		V    json.RawMessage `json:"v"`
		Kids []*Tree         `json:"kids"`
		Name string          `json:"name"`
	}
	if err := json.Unmarshal(b, &raw); err != nil {
		return err
	}
	t.K, t.Kids, t.Name = raw.K, raw.Kids, raw.Name
	if t.Kids == nil {
		t.Kids = []*Tree{}
	}
	if raw.K == "c" {
		var m M
		if err := json.Unmarshal(raw.V, &m); err != nil {
			return err
		}
		t.V = m
	} else {
		var s string
		if err := json.Unmarshal(raw.V, &s); err != nil {
			return err
		}
		t.V = s
	}
	return nil
}

func cst(v interface{}) *Tree { return &Tree{K: "c", V: tv(v), Kids: []*Tree{}} }
func named(n string, v interface{}) *Tree {
	return &Tree{K: "c", V: tv(v), Kids: []*Tree{}, Name: n}
}
func vr(n string) *Tree { return &Tree{K: "v", V: n, Kids: []*Tree{}} }
func op(n string, k ...*Tree) *Tree {
	if k == nil {
		k = []*Tree{}
	}
	if n == "if" {
		return &Tree{K: "if", V: "if", Kids: k}
	}
	return &Tree{K: "o", V: n, Kids: k}
}

func (t *Tree) Size() int {
	n := 1
	for _, k := range t.Kids {
		n += k.Size()
	}
	return n
}

// litText renders a tagged constant as prefix-notation source.
func litText(m M) string {
	switch m["t"] {
	case "b":
		return strconv.FormatBool(m["v"].(bool))
	case "i":
		return fmt.Sprint(num(m["v"]))
	case "s":
		return `"` + m["v"].(string) + `"`
	case "il", "sl":
		var p []string
		for _, e := range m["v"].([]interface{}) {
			if s, ok := e.(string); ok {
				p = append(p, `"`+s+`"`)
			} else {
				p = append(p, fmt.Sprint(num(e)))
			}
		}
		return "(" + strings.Join(p, " ") + ")"
	}
	panic(fmt.Sprint("litText: ", m))
}

func num(v interface{}) int64 {
	switch x := v.(type) {
	case int64:
		return x
	case int:
		return int64(x)
	case float64:
		return int64(x)
	case json.Number:
		n, _ := x.Int64()
		return n
	}
	panic(fmt.Sprintf("num: %T", v))
}

// Src renders the tree in prefix notation.
func (t *Tree) Src() string {
	switch t.K {
	case "c":
		if t.Name != "" {
			return t.Name
		}
		return litText(t.V.(M))
	case "v":
		return t.V.(string)
	}
	var sb strings.Builder
	sb.WriteString("(" + t.V.(string))
	for _, k := range t.Kids {
		sb.WriteString(" " + k.Src())
	}
	sb.WriteString(")")
	return sb.String()
}

// goVal turns a tagged record back into an engine value (for bindings).
func goVal(m M) interface{} {
	switch m["t"] {
	case "b":
		return m["v"].(bool)
	case "i":
		return num(m["v"])
	case "s":
		return m["v"].(string)
	case "il":
		r := []int64{}
		for _, e := range m["v"].([]interface{}) {
			r = append(r, num(e))
		}
		return r
	case "sl":
		r := []string{}
		for _, e := range m["v"].([]interface{}) {
			r = append(r, e.(string))
		}
		return r
	case "is":
		r := map[int64]struct{}{}
		for _, e := range m["v"].([]interface{}) {
			r[num(e)] = struct{}{}
		}
		return r
	case "ss":
		r := map[string]struct{}{}
		for _, e := range m["v"].([]interface{}) {
			r[e.(string)] = struct{}{}
		}
		return r
	case "nil":
		return nil
	case "x":
		return int(3) // the one foreign value the drivers use: a Go int
	case "w":
		var u uint64
		switch a := m["v"].(type) {
		case []int:
			for _, e := range a {
				u = u<<8 | uint64(e)
			}
		case []interface{}:
			for _, e := range a {
				u = u<<8 | uint64(num(e))
			}
		}
		return int64(u)
	}
	panic(fmt.Sprint("goVal: ", m))
}
