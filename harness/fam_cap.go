package main

// Family "cap" (C09): parametric expression families (Capacity.tla) with the REAL
// capacity constants: operand counts around 127, node counts around 16383 / 32767,
// stack needs around 8 / 16, under option subsets and event modes.

import (
	"fmt"
	"math/rand"
	"os"
	"strings"
	"time"

	"github.com/onheap/eval"
)

type capDesc struct {
	Fam string
	Op  string
	A   int
	B   int
}

func leafOf(op string) string {
	switch op {
	case "and", "or", "&&", "||", "&", "|":
		return "x"
	}
	return "n"
}

func (d capDesc) src() string {
	var sb strings.Builder
	v := leafOf(d.Op)
	switch d.Fam {
	case "fan":
		sb.WriteString("(" + d.Op)
		for i := 0; i < d.A; i++ {
			sb.WriteString(" " + v)
		}
		sb.WriteString(")")
	case "nestfan":
		sb.WriteString("(" + d.Op + " (" + d.Op)
		for i := 0; i < d.A; i++ {
			sb.WriteString(" x")
		}
		sb.WriteString(") (" + d.Op)
		for i := 0; i < d.B; i++ {
			sb.WriteString(" x")
		}
		sb.WriteString("))")
	case "chainR":
		for i := 0; i < d.A; i++ {
			sb.WriteString("(" + d.Op + " " + v + " ")
		}
		sb.WriteString(v)
		sb.WriteString(strings.Repeat(")", d.A))
	case "chainZ":
		for i := 0; i < d.A; i++ {
			sb.WriteString("(" + d.Op + " (one) ")
		}
		sb.WriteString("(one)")
		sb.WriteString(strings.Repeat(")", d.A))
	case "chainL":
		for i := 0; i < d.A; i++ {
			sb.WriteString("(" + d.Op + " ")
		}
		sb.WriteString(v)
		for i := 0; i < d.A; i++ {
			sb.WriteString(" " + v + ")")
		}
	case "cmpfan":
		sb.WriteString("(" + d.Op)
		for i := 0; i < d.A; i++ {
			sb.WriteString(" (= n n)")
		}
		sb.WriteString(")")
	case "cmpfan2":
		sb.WriteString("(and")
		for i := 0; i < d.A; i++ {
			sb.WriteString(" (or")
			for j := 0; j < d.B; j++ {
				sb.WriteString(" (= n n)")
			}
			sb.WriteString(")")
		}
		sb.WriteString(")")
	case "chainR3":
		sb.WriteString("(+ n n ")
		for i := 0; i < d.A; i++ {
			sb.WriteString("(+ n ")
		}
		sb.WriteString("n")
		sb.WriteString(strings.Repeat(")", d.A))
		sb.WriteString(")")
	case "fanchain":
		sb.WriteString("(+")
		for i := 0; i < d.A; i++ {
			sb.WriteString(" n")
		}
		sb.WriteString(" ")
		for i := 0; i < d.B; i++ {
			sb.WriteString("(+ n ")
		}
		sb.WriteString("n")
		sb.WriteString(strings.Repeat(")", d.B))
		sb.WriteString(")")
	case "ifchain":
		sb.WriteString("(+ ")
		for i := 0; i < d.A; i++ {
			sb.WriteString("(if x ")
		}
		sb.WriteString("n")
		for i := 0; i < d.A; i++ {
			sb.WriteString(" n)")
		}
		sb.WriteString(" n)")
	}
	return sb.String()
}

func famCap() {
	watchdog = 15 * time.Minute // programs at the 32767-node limit: a single Dump legitimately takes tens of seconds
	r := rand.New(rand.NewSource(*fSeed))
	var ds []capDesc
	thorough := *fTier == "thorough"
	for _, op := range []string{"+", "and", "or", "add", "&&"} {
		for _, a := range []int{2, 3, 126, 127, 128, 129} {
			ds = append(ds, capDesc{"fan", op, a, 0})
		}
	}
	for _, op := range []string{"and", "or"} {
		for _, ab := range [][2]int{{2, 2}, {63, 64}, {64, 64}, {64, 63}, {126, 2}, {125, 2}, {100, 27}, {100, 28}, {127, 127}} {
			ds = append(ds, capDesc{"nestfan", op, ab[0], ab[1]})
		}
		for _, a := range []int{126, 127, 128, 5460, 5461} {
			ds = append(ds, capDesc{"cmpfan", op, a, 0})
		}
	}
	small := []int{1, 2, 6, 7, 8, 9, 14, 15, 16, 17, 18, 40}
	big := []int{8190, 8191, 8192, 16382, 16383, 16384}
	for _, fam := range []string{"chainR", "chainL"} {
		for _, a := range small {
			ds = append(ds, capDesc{fam, "+", a, 0})
			ds = append(ds, capDesc{fam, "and", a, 0})
		}
		for _, a := range []int{125, 126, 127, 128} {
			ds = append(ds, capDesc{fam, "or", a, 0})
		}
		for _, a := range big {
			ds = append(ds, capDesc{fam, "+", a, 0})
		}
	}
	for _, a := range small {
		ds = append(ds, capDesc{"chainZ", "+", a, 0})
		ds = append(ds, capDesc{"chainR3", "+", a, 0})
	}
	// even node counts at the limits (chainR3: 2a+4), many fast operators under events (cmpfan2),
	// width and depth together (fanchain: stack need a+b+1)
	for _, a := range []int{8188, 8189, 8190, 16380, 16381, 16382} {
		ds = append(ds, capDesc{"chainR3", "+", a, 0})
	}
	for _, ab := range [][2]int{{2, 2}, {3, 127}, {42, 127}, {43, 127}, {42, 128}, {85, 127}, {86, 127}} {
		ds = append(ds, capDesc{"cmpfan2", "and", ab[0], ab[1]})
	}
	for _, ab := range [][2]int{{3, 4}, {6, 1}, {7, 1}, {6, 9}, {14, 1}, {126, 16250}, {126, 16258}, {126, 16300}, {100, 8141}, {126, 8128}} {
		ds = append(ds, capDesc{"fanchain", "+", ab[0], ab[1]})
	}
	for _, a := range []int{0, 1, 5, 7, 8, 9, 15, 16, 17, 4094, 4095, 4096, 8190, 8191, 8192} {
		ds = append(ds, capDesc{"ifchain", "+", a, 0})
	}
	// random parameters near the limits
	nr := 40
	if thorough {
		nr = 400
	}
	for i := 0; i < nr; i++ {
		switch r.Intn(5) {
		case 0:
			ds = append(ds, capDesc{"fan", []string{"+", "and", "or"}[r.Intn(3)], 120 + r.Intn(12), 0})
		case 1:
			ds = append(ds, capDesc{"nestfan", []string{"and", "or"}[r.Intn(2)], 2 + r.Intn(126), 2 + r.Intn(126)})
		case 2:
			ds = append(ds, capDesc{[]string{"chainR", "chainL"}[r.Intn(2)], "+", []int{8185, 16378}[r.Intn(2)] + r.Intn(10), 0})
		case 3:
			ds = append(ds, capDesc{[]string{"chainR", "chainL"}[r.Intn(2)], []string{"+", "and", "or"}[r.Intn(3)], 1 + r.Intn(24), 0})
		case 4:
			ds = append(ds, capDesc{"ifchain", "+", []int{4090, 8186, 3}[r.Intn(3)] + r.Intn(10), 0})
		}
	}
	seen := map[capDesc]bool{}
	id := *fIDBase - 1
	ntrees := 250
	if thorough {
		ntrees = 6000
	}
	capTrees(r, &id, ntrees)
	envs := []Env{{"x": true, "n": int64(1)}, {"x": false, "n": int64(2)}}
	for _, d := range ds {
		if seen[d] {
			continue
		}
		seen[d] = true
		src := d.src()
		t0 := time.Now()
		hugeSrc := len(src) > 4000
		masks := []int{0, 2, 4, 15}
		if !hugeSrc || thorough {
			masks = nil
			for m := 0; m < 16; m++ {
				masks = append(masks, m)
			}
		}
		for _, mask := range masks {
			for _, evm := range []string{"", "report", "debug"} {
				if hugeSrc && !thorough && evm == "debug" && mask != 0 {
					continue // same layout as report: the quick tier compiles Debug under one subset only
				}
				id++
				l := &Log{Phase: "compile"}
				cc, _ := newConf(ConfOpts{Mask: mask, Events: evm}, l)
				rec := M{"fam": "cap", "for": "C09", "kind": "family", "id": id, "desc": M{"fam": d.Fam, "op": d.Op, "a": d.A, "b": d.B},
					"m": maskRec(mask), "ev": evm, "events": evm != ""}
				if !hugeSrc {
					rec["src"] = src
				} else {
					rec["src"] = src[:60] + "..."
				}
				var e *eval.Expr
				var err error
				p := safely(func() M { e, err = eval.Compile(cc, src); return nil })
				runs := []interface{}{}
				switch {
				case p != nil:
					rec["cout"], rec["cmsg"], rec["csite"] = "panic", p["msg"], p["v"]
				case err != nil:
					rec["cout"], rec["cmsg"] = "err", err.Error()
				case e == nil:
					rec["cout"] = "nil"
				default:
					rec["cout"] = "ok"
					vp := eval.VerifProgram(e)
					rec["max"], rec["size"] = vp.MaxStack, len(vp.Nodes)
					for ei, env := range envs {
						if hugeSrc && evm != "" && !thorough && (ei > 0 || (mask != 0 && mask != 15)) {
							continue // LOOP events copy the whole stack: quadratic on deep chains
						}
						run := M{"e": ei + 1}
						hw, nev := 0, 0
						call := func() M {
							return safely(func() M {
								v, err := e.Eval(&eval.Ctx{VariableFetcher: &Fetcher{Vals: env}})
								return outcome(v, err)
							})
						}
						if evm != "" {
							ch := make(chan eval.Event, 64)
							e.EventChan = ch
							done := make(chan struct{})
							go func() {
								for ev := range ch {
									nev++
									if ev.EventType == eval.LoopEvent && len(ev.Stack) > hw {
										hw = len(ev.Stack)
									}
								}
								close(done)
							}()
							run["res"] = call()
							close(ch)
							<-done
							// TryEval below also emits events: drain them
							ch2 := make(chan eval.Event, 64)
							e.EventChan = ch2
							go func() {
								for range ch2 {
								}
							}()
						} else {
							run["res"] = call()
						}
						run["try"] = safely(func() M {
							v, err := e.TryEval(&eval.Ctx{VariableFetcher: &Fetcher{Vals: env}})
							return outcome(v, err)
						})
						run["hw"], run["nev"] = hw, nev
						runs = append(runs, run)
					}
				}
				er := []interface{}{}
				for _, env := range envs {
					er = append(er, envRec(env))
				}
				rec["envs"], rec["runs"] = er, runs
				emit(rec)
			}
		}
		if os.Getenv("CAP_TIMING") != "" && time.Since(t0) > 300*time.Millisecond {
			fmt.Fprintln(os.Stderr, "slow", d, time.Since(t0))
		}
	}
}

// capTrees: random deep, narrow trees (spines) of arbitrary shape -- if in the condition, in the true
// or the false branch, three-operand operators, fast and plain operators mixed -- around the stack
// class boundaries.  Judged against Den and the LOOP high-water mark, no closed form needed.
func capTrees(r *rand.Rand, id *int, n int) {
	g := &gen{r: r, c: GenCfg{Custom: true, Alias: true, MaxKids: 3, Consts: true, ConstBias: 30}}
	envs := []Env{{"x": true, "y": false, "z": true, "n": int64(1), "m": int64(2)}, {"x": false, "y": true, "z": false, "n": int64(2), "m": int64(0)}}
	seen := map[string]bool{}
	for i := 0; i < n; i++ {
		typ := "b"
		if r.Intn(2) == 0 {
			typ = "i"
		}
		t := g.spine(typ, 5+r.Intn(16))
		src := t.Src()
		if len(t.Kids) == 0 || seen[src] {
			continue
		}
		seen[src] = true
		for _, mask := range []int{0, 4, 15, r.Intn(16)} {
			for _, evm := range []string{"", "report"} {
				*id++
				l := &Log{Phase: "compile"}
				cc, _ := newConf(ConfOpts{Mask: mask, Events: evm}, l)
				rec := M{"fam": "cap", "for": "C09", "kind": "tree", "id": *id, "src": src, "tree": t, "m": maskRec(mask), "ev": evm, "events": evm != ""}
				var e *eval.Expr
				var err error
				p := safely(func() M { e, err = eval.Compile(cc, src); return nil })
				l.Phase = "eval"
				runs := []interface{}{}
				switch {
				case p != nil:
					rec["cout"] = "panic"
				case err != nil:
					rec["cout"] = "err"
				default:
					rec["cout"] = "ok"
					vp := eval.VerifProgram(e)
					rec["max"], rec["size"] = vp.MaxStack, len(vp.Nodes)
					for ei, env := range envs {
						run := M{"e": ei + 1}
						hw := 0
						for _, api := range []string{"res", "try"} {
							api := api
							var done chan struct{}
							if evm != "" {
								ch := make(chan eval.Event, 64)
								e.EventChan = ch
								done = make(chan struct{})
								go func() {
									for ev := range ch {
										if ev.EventType == eval.LoopEvent && len(ev.Stack) > hw {
											hw = len(ev.Stack)
										}
									}
									close(done)
								}()
							}
							run[api] = safely(func() M {
								ctx := &eval.Ctx{VariableFetcher: &Fetcher{Vals: env}}
								if api == "try" {
									v, err := e.TryEval(ctx)
									return outcome(v, err)
								}
								v, err := e.Eval(ctx)
								return outcome(v, err)
							})
							if evm != "" {
								close(e.EventChan)
								<-done
							}
						}
						run["hw"], run["nev"] = hw, 0
						runs = append(runs, run)
					}
				}
				er := []interface{}{}
				for _, env := range envs {
					er = append(er, envRec(env))
				}
				rec["envs"], rec["runs"] = er, runs
				emit(rec)
			}
		}
	}
}

func init() { families["cap"] = famCap }
