package main

// Family "dump" (C13): Dump -> Compile -> Dump round trips, with literals whose
// contents range over everything the lexer can put inside a literal.

import (
	"math/rand"
	"strings"

	"github.com/onheap/eval"
)

var contentChars = []string{"a", "b", "SP", "(", ")", ";", ",", "[", "]", "BS", "NL", "TAB", "NBSP", "IDSP", "CR", "Eacute", "Agrave", "Ni", "CTL", "U", "!", "-", "1",
	"%", ":", "+", "=", "<", "&", "|", "*", "/", ".", "_", "n", "t", "0"}
var plainChars = []string{"a", "b", "SP", "(", ")", ";", ",", "[", "Eacute", "1"}

// words the engine uses itself (the end-if marker, keywords, constants, operator names, directive words): as the
// content of a literal they are just text
var reservedWords = []string{"fi", "if", "DNE", "true", "false", "and", "or", "not", "eq", "nil", "K", "optimize", "in"}

func randContent(r *rand.Rand, special bool) string {
	if r.Intn(9) == 0 {
		return reservedWords[r.Intn(len(reservedWords))]
	}
	n := r.Intn(5)
	m := make([]string, n)
	for i := range m {
		if special {
			m[i] = contentChars[r.Intn(len(contentChars))]
		} else {
			m[i] = plainChars[r.Intn(len(plainChars))]
		}
	}
	return concretise(m)
}

// plant replaces some string / list literals of t by literals with generated contents.
func plant(r *rand.Rand, t *Tree, special bool) {
	if t.K == "c" {
		m := t.V.(M)
		switch m["t"] {
		case "s":
			if t.Name == "" && r.Intn(3) > 0 {
				m["v"] = randContent(r, special)
			}
		case "sl":
			a := m["v"].([]interface{})
			for i := range a {
				a[i] = randContent(r, special)
			}
		case "i":
			if t.Name == "" && r.Intn(4) == 0 {
				m["v"] = []int64{-2147483647, 2147483647, -1, 1000000, -77}[r.Intn(5)]
			}
		}
	}
	for _, k := range t.Kids {
		plant(r, k, special)
	}
}

// charTree renders a tree with names and string contents as model-character arrays
// (Dump.tla's representation).
func charTree(t *Tree) M {
	kids := []interface{}{}
	for _, k := range t.Kids {
		kids = append(kids, charTree(k))
	}
	switch t.K {
	case "c":
		m := t.V.(M)
		switch m["t"] {
		case "s":
			return M{"k": "c", "v": M{"t": "s", "v": abstract(m["v"].(string))}, "kids": kids}
		case "sl":
			a := []interface{}{}
			for _, e := range m["v"].([]interface{}) {
				a = append(a, abstract(e.(string)))
			}
			return M{"k": "c", "v": M{"t": "sl", "v": a}, "kids": kids}
		}
		return M{"k": "c", "v": m, "kids": kids}
	case "if":
		return M{"k": "o", "v": abstract("if"), "kids": kids}
	}
	return M{"k": t.K, "v": abstract(t.V.(string)), "kids": kids}
}

func hasSpecial(s string) bool {
	for _, c := range abstractS(s) {
		switch c {
		case "BS", "NL", "TAB", "NBSP", "IDSP", "CR", "CTL", "U":
			return true
		}
	}
	return false
}

func treeSpecial(t *Tree) bool {
	if t.K == "c" {
		m := t.V.(M)
		switch m["t"] {
		case "s":
			return hasSpecial(m["v"].(string))
		case "sl":
			for _, e := range m["v"].([]interface{}) {
				if hasSpecial(e.(string)) {
					return true
				}
			}
		}
	}
	for _, k := range t.Kids {
		if treeSpecial(k) {
			return true
		}
	}
	return false
}

func collectStrings(t *Tree, acc *[]string) {
	if t.K == "c" {
		m := t.V.(M)
		if m["t"] == "s" {
			*acc = append(*acc, m["v"].(string))
		}
	}
	for _, k := range t.Kids {
		collectStrings(k, acc)
	}
}

func famDump() {
	r := rand.New(rand.NewSource(*fSeed))
	g := &gen{r: r, c: GenCfg{Custom: true, Alias: true, MaxKids: 4, Lists: true, Strings: true, Consts: true, ConstBias: 55}}
	seen := map[string]bool{}
	id := *fIDBase - 1
	var trees []*Tree
	if *fCases != "" {
		trees = append(trees, readCases(*fCases)...)
	}
	// every literal content up to the exhaustive length, at two depths
	var rec func(prefix []string, n int)
	rec = func(prefix []string, n int) {
		s := concretise(prefix)
		trees = append(trees, op("=", vr("s"), cst(s)))
		trees = append(trees, op("and", vr("x"), op("or", op("in", vr("s"), cst([]string{s, "a"})), op("=", cst(s), vr("s")))))
		if n == 0 {
			return
		}
		for _, c := range contentChars {
			rec(append(append([]string{}, prefix...), c), n-1)
		}
	}
	rec(nil, *fExh)
	for i := 0; i < *fN; i++ {
		t, _ := g.tree("b", 1+r.Intn(*fDepth))
		if len(t.Kids) == 0 {
			i--
			continue
		}
		plant(r, t, i%2 == 0)
		trees = append(trees, t)
	}
	// deep nesting: one long path of operators, a string literal at the bottom
	for _, depth := range []int{17, 31, 32, 33, 34, 35, 48, 63, 64, 65, 66, 100} {
		for shape := 0; shape < 3; shape++ {
			t := op("=", vr("s"), cst([]string{"a", "a b", "("}[shape]))
			for k := 0; k < depth; k++ {
				switch (k + shape) % 3 {
				case 0:
					t = op("not", t)
				case 1:
					t = op("and", vr("x"), t)
				default:
					t = op("if", vr("y"), t, vr("z"))
				}
			}
			trees = append(trees, t)
		}
		trees = append(trees, g.spine("b", depth))
	}
	for _, t := range trees {
		src := t.Src()
		if seen[src] || strings.Contains(src, "\x00") {
			continue
		}
		seen[src] = true
		id++
		mask := []int{0, 15, r.Intn(16), 0}[r.Intn(4)]
		evm := []string{"", "", "report", "debug"}[r.Intn(4)]
		c := compileVariant(src, ConfOpts{Mask: mask, Events: evm}, false)
		rec := M{"fam": "dump", "for": "C13", "id": id, "src": src, "ctree": charTree(t), "m": maskRec(mask), "ev": evm,
			"special": treeSpecial(t), "cout": c.rec["cout"]}
		if c.expr != nil {
			d1 := c.rec["dump"].(string)
			rec["d1"] = abstract(d1)
			rec["d1text"] = d1
			// a program folded to a bare scalar constant is outside the property
			vp := eval.VerifProgram(c.expr)
			scalar := false
			if len(vp.Nodes) <= 2 {
				last := vp.Nodes[len(vp.Nodes)-1]
				switch last.Value.(type) {
				case bool, int64, string:
					scalar = last.Type == "constant"
				}
			}
			rec["scalar"] = scalar
			// events off twin: same dump
			c0 := compileVariant(src, ConfOpts{Mask: mask}, false)
			rec["d1noev"] = ""
			if c0.expr != nil {
				rec["d1noev"] = c0.rec["dump"]
			}
			// recompile the dump under the same names, optimizations off
			c2 := compileVariant(d1, ConfOpts{Mask: 0}, false)
			rec["cout2"] = c2.rec["cout"]
			rec["d2text"] = ""
			var strs []string
			collectStrings(t, &strs)
			envs := []Env{randEnv(r), randEnv(r)}
			for k, s := range strs {
				if k < 3 {
					e := randEnv(r)
					e["s"] = s
					envs = append(envs, e)
				}
			}
			r1, r2 := []interface{}{}, []interface{}{}
			if c2.expr != nil {
				rec["d2text"] = c2.rec["dump"]
				if evm != "" {
					c.expr.EventChan = make(chan eval.Event, 1<<16)
				}
				for _, env := range envs {
					r1 = append(r1, safely(func() M {
						v, err := c.expr.Eval(&eval.Ctx{VariableFetcher: &Fetcher{Vals: env}})
						return outcome(v, err)
					}))
					drain(c.expr)
					r2 = append(r2, safely(func() M {
						v, err := c2.expr.Eval(&eval.Ctx{VariableFetcher: &Fetcher{Vals: env}})
						return outcome(v, err)
					}))
				}
			}
			rec["res1"], rec["res2"] = r1, r2
		}
		emit(rec)
	}
}

func init() { families["dump"] = famDump }
