package main

// Family "eval": Compile + Eval observations for C01, C02, C03, C10 (and the
// events-off baseline of C12).  One line per source tree: every compiled variant
// (option subset x how the options are given x cost map x mode) with, per binding,
// the result, the ordered effect log, and (sampled) the exported flat program.

import (
	"fmt"
	"math"
	"math/rand"
	"runtime"
	"strconv"
	"strings"

	"github.com/onheap/eval"
	"sync/atomic"
	"time"
)

type Env map[string]interface{}

func envRec(e Env) M {
	m := M{}
	for k, v := range e {
		m[k] = tv(v)
	}
	return m
}

func panicSite() string {
	pcs := make([]uintptr, 32)
	n := runtime.Callers(3, pcs)
	fr := runtime.CallersFrames(pcs[:n])
	for {
		f, more := fr.Next()
		if strings.Contains(f.Function, "onheap/eval.") {
			fn := f.Function[strings.LastIndex(f.Function, "/")+1:]
			return fn
		}
		if !more {
			break
		}
	}
	return "?"
}

func panicRec(r interface{}) M {
	return M{"t": "p", "v": panicSite(), "msg": fmt.Sprint(r)}
}

// safely runs f, converting a panic into a "p" record.
// watchdog: how long a single call into the library may take before it is recorded as not returning ({"t":"to"}).
// The call's goroutine cannot be stopped and is abandoned (it may spin for ever); after maxHangs such calls nothing
// further is called in this run, and the driver stops after the record in progress (see emit).
var (
	watchdog = 30 * time.Second
	hangs    int32
)

const maxHangs = 5

func safely(f func() M) M {
	if atomic.LoadInt32(&hangs) >= maxHangs {
		return M{"t": "to", "v": "not called: the watchdog has fired " + fmt.Sprint(maxHangs) + " times in this run"}
	}
	done := make(chan M, 1)
	go func() {
		var r M
		defer func() {
			if x := recover(); x != nil {
				r = panicRec(x)
			}
			done <- r
		}()
		r = f()
	}()
	select {
	case r := <-done:
		return r
	case <-time.After(watchdog):
		atomic.AddInt32(&hangs, 1)
		return M{"t": "to", "v": "no return within the watchdog time"}
	}
}

type compiled struct {
	effAPIs bool   // record the effects of EvalBool and TryEval too (C03)
	src     string // set when the convenience API is to be exercised too (C01, plain variant)
	expr    *eval.Expr
	cc      *eval.Config
	log     *Log
	rec     M
}

// compileVariant compiles src under the variant and records the outcome.
func compileVariant(src string, o ConfOpts, wantProg bool) *compiled {
	l := &Log{Phase: "compile"}
	cc, dir := newConf(o, l)
	c := &compiled{cc: cc, log: l}
	rec := M{"m": maskRec(o.Mask), "how": howOf(o), "undef": o.Undefined, "ev": o.Events, "costs": costsName(o.Costs),
		"dirchars": abstract(dir), "stateless": statelessRec(cc)}
	var e *eval.Expr
	var err error
	p := safely(func() M {
		text := dir + src
		if o.How == "tail" {
			// options given programmatically; directive-looking comments that say the opposite INSIDE and AFTER
			// the expression: only comments before the first token are directives
			opp := ";;;; optimize:" + map[bool]string{true: "false", false: "true"}[o.Mask&1 != 0]
			for j, n := range optNames {
				opp += ", " + string(n) + ":" + map[bool]string{true: "false", false: "true"}[o.Mask&(1<<uint(j)) != 0]
			}
			text = src + "\n" + opp + "\n"
			if i := strings.Index(src, " "); i > 0 && o.Spell%2 == 0 {
				text = src[:i] + "\n" + opp + "\n" + src[i:] + "\n" + opp
			}
		}
		e, err = eval.Compile(cc, text)
		return nil
	})
	l.Phase = "eval"
	calls := []interface{}{}
	for _, n := range l.CCall {
		calls = append(calls, n)
	}
	rec["ccalls"] = calls
	switch {
	case p != nil:
		rec["cout"], rec["cmsg"], rec["csite"] = "panic", p["msg"], p["v"]
	case err != nil:
		rec["cout"], rec["cmsg"] = "err", err.Error()
	case e == nil:
		rec["cout"], rec["cmsg"] = "nil", "Compile returned nil, nil"
	default:
		rec["cout"] = "ok"
		c.expr = e
		if o.Events != "" {
			e.EventChan = make(chan eval.Event, 1<<16)
		}
		d := safely(func() M { return M{"d": eval.Dump(e), "t": eval.DumpTable(e, true)} })
		if d["t"] == "p" {
			rec["dump"], rec["dok"], rec["dmsg"] = "", false, d["msg"]
		} else {
			rec["dump"], rec["table"] = d["d"], d["t"]
			vars := map[string]bool{}
			dt, derr := dumpTree(d["d"].(string), vars)
			if derr != nil {
				rec["dok"], rec["dmsg"] = false, derr.Error()
			} else {
				rec["dok"], rec["dtree"] = true, dt
			}
		}
		rec["hasprog"] = false
		if wantProg {
			rec["hasprog"] = true
			rec["prog"] = progJSON(eval.VerifProgram(e))
			rec["tab"] = parseTable(d["t"])
		}
	}
	c.rec = rec
	return c
}

// parseTable reads the numeric rows of DumpTable(e, true): fixed-width cells of '|' + 5 runes.
func parseTable(t interface{}) M {
	bad := M{"ok": false, "size": 0, "stack": 0, "idx": []interface{}{}, "pIdx": []interface{}{}, "flag": []interface{}{},
		"cCnt": []interface{}{}, "scIdx": []interface{}{}, "scVal": []interface{}{}, "osTop": []interface{}{}}
	text, isStr := t.(string)
	if !isStr {
		return bad
	}
	lines := strings.Split(text, "\n")
	if len(lines) < 10 {
		return bad
	}
	res := M{"ok": true}
	var size, stack int
	if _, err := fmt.Sscanf(lines[0], "node  size: %d", &size); err != nil {
		return bad
	}
	if _, err := fmt.Sscanf(lines[1], "stack size: %d", &stack); err != nil {
		return bad
	}
	res["size"], res["stack"] = size, stack
	for _, ln := range lines[2:] {
		rs := []rune(ln)
		if len(rs) < 7 {
			continue
		}
		name := strings.TrimSpace(string(rs[:5]))
		cells := rs[7:]
		vals := []interface{}{}
		for len(cells) >= 6 && cells[0] == '|' {
			vals = append(vals, strings.TrimSpace(string(cells[1:6])))
			cells = cells[6:]
		}
		if name == "node" {
			continue
		}
		if string(cells) != "|" {
			return bad
		}
		if name == "flag" || name == "scVal" {
			res[name] = vals
			continue
		}
		nums := []interface{}{}
		for _, v := range vals {
			n, err := strconv.Atoi(v.(string))
			if err != nil {
				return bad
			}
			nums = append(nums, n)
		}
		res[name] = nums
	}
	for _, k := range []string{"idx", "pIdx", "flag", "cCnt", "scIdx", "scVal", "osTop"} {
		if _, ok := res[k]; !ok {
			return bad
		}
	}
	return res
}

func statelessRec(cc *eval.Config) []interface{} {
	r := []interface{}{}
	for _, n := range cc.StatelessOperators {
		r = append(r, n)
	}
	return r
}

func howOf(o ConfOpts) string {
	if o.How == "" {
		return "opt"
	}
	return o.How
}

func costsName(c map[string]float64) string {
	if len(c) == 0 {
		return "none"
	}
	var p []string
	for _, k := range sortedKeys(c) {
		p = append(p, fmt.Sprintf("%s=%v", k, c[k]))
	}
	return strings.Join(p, ",")
}

func sortedKeys(c map[string]float64) []string {
	ks := make([]string, 0, len(c))
	for k := range c {
		ks = append(ks, k)
	}
	for i := range ks {
		for j := i + 1; j < len(ks); j++ {
			if ks[j] < ks[i] {
				ks[i], ks[j] = ks[j], ks[i]
			}
		}
	}
	return ks
}

func drain(e *eval.Expr) {
	if e.EventChan == nil {
		return
	}
	for {
		select {
		case <-e.EventChan:
		default:
			return
		}
	}
}

// runEval evaluates the compiled variant under env and records result + effects.
// convenience runs the top-level eval.Eval(expr, vals) (its own config via RegVarAndOp and its own
// ctx via NewCtxFromVars), with the custom operators passed in the value map.
func convenience(src string, env Env) M {
	vals := map[string]interface{}{}
	for k, v := range env {
		vals[k] = v
	}
	l := &Log{Phase: "eval"}
	for n, f := range customOps(l) {
		vals[n] = f
	}
	return safely(func() M {
		v, err := eval.Eval(src, vals, eval.RegVarAndOp(vals), eval.Optimizations(false))
		if err != nil && strings.Contains(err.Error(), "unknown token error") {
			return M{"t": "skip", "v": "unregistered name"}
		}
		return outcome(v, err)
	})
}

func (c *compiled) runEval(env Env, idx int, reps int, withBool bool) M {
	run := M{"e": idx}
	var repRecs []interface{}
	for k := 0; k < reps; k++ {
		c.log.reset()
		f := &Fetcher{Vals: env, Log: c.log}
		ctx := &eval.Ctx{VariableFetcher: f}
		r := safely(func() M {
			v, err := c.expr.Eval(ctx)
			return outcome(v, err)
		})
		drain(c.expr)
		eff := []interface{}{}
		for _, e := range c.log.Eff {
			eff = append(eff, e)
		}
		if k == 0 {
			run["res"], run["eff"] = r, eff
		} else {
			repRecs = append(repRecs, M{"res": r, "eff": eff})
		}
	}
	if repRecs == nil {
		repRecs = []interface{}{}
	}
	run["reps"] = repRecs
	if c.effAPIs {
		// the other evaluation entry points: EvalBool, and TryEval with everything available
		c.log.reset()
		f := &Fetcher{Vals: env, Log: c.log}
		run["bres2"] = safely(func() M {
			v, err := c.expr.EvalBool(&eval.Ctx{VariableFetcher: f})
			if err != nil {
				return te(err)
			}
			return tv(v)
		})
		drain(c.expr)
		eff := []interface{}{}
		for _, e := range c.log.Eff {
			eff = append(eff, e)
		}
		run["beff"] = eff
		c.log.reset()
		run["tres"] = safely(func() M {
			v, err := c.expr.TryEval(&eval.Ctx{VariableFetcher: &Fetcher{Vals: env, Log: c.log}})
			return outcome(v, err)
		})
		drain(c.expr)
		teff := []interface{}{}
		for _, e := range c.log.Eff {
			teff = append(teff, e)
		}
		run["teff"] = teff
	}
	if withBool {
		c.log.reset()
		f := &Fetcher{Vals: env, Log: c.log, Quiet: true}
		run["bres"] = safely(func() M {
			v, err := c.expr.EvalBool(&eval.Ctx{VariableFetcher: f})
			if err != nil {
				return te(err)
			}
			return tv(v)
		})
		drain(c.expr)
		run["conv"] = M{"t": "skip", "v": "not run"}
		if c.src != "" {
			run["conv"] = convenience(c.src, env)
		}
	}
	return run
}

// ---- bindings ----

func smallEnvs(withZ bool) []Env {
	var r []Env
	for _, x := range []bool{true, false} {
		for _, y := range []bool{true, false} {
			for _, n := range []int64{0, 2} {
				e := Env{"x": x, "y": y, "n": n}
				if withZ {
					e["z"], e["m"], e["s"], e["l"] = !x, int64(1), "a", []int64{1, 2}
				}
				r = append(r, e)
			}
		}
	}
	return r
}

func randEnv(r *rand.Rand) Env {
	return Env{
		"x": r.Intn(2) == 0, "y": r.Intn(2) == 0, "z": r.Intn(2) == 0,
		"n": int64(r.Intn(5) - 1), "m": int64(r.Intn(4)),
		"s": []string{"a", "b", "", "DNE", "fi"}[r.Intn(5)],
		"l": [][]int64{{1, 2}, {}, {0, 3}}[r.Intn(3)],
	}
}

var costMaps = []map[string]float64{
	nil,
	{"x": 50, "n": -3},
	{"variable": 0.5, "operator": 1e308, "y": math.Inf(1)},
	{"x": math.NaN(), "and": -1e308, "f": math.Inf(-1), "z": 7},
	{"or": 0, "not": 100, "m": -1, "variable": -1},
}

func famEval() {
	r := rand.New(rand.NewSource(*fSeed))
	prop := *fFor
	gc := GenCfg{Custom: true, Alias: true, MaxKids: 4, Lists: true, Strings: true, OddStrings: true, Consts: true}
	switch prop {
	case "C01":
		gc.Failing, gc.FailVar, gc.Wrong = true, true, true
	case "C02":
		gc.Failing = true // failing operators only; every variable is bound
		gc.Foreign, foreignConsts = true, true
	case "C03":
		gc.Failing = true
	case "C10":
		gc.Failing, gc.H, gc.ConstBias, gc.WrongBool = true, true, 65, true
	}
	var trees []*Tree
	if *fCases != "" {
		trees = append(trees, readCases(*fCases)...)
	}
	if *fExh >= 0 {
		all := enumTrees("b", *fExh, prop == "C01", true)
		var nl []*Tree
		for _, t := range all {
			if len(t.Kids) > 0 {
				nl = append(nl, t)
			}
		}
		if *fExhMax > 0 && len(nl) > *fExhMax {
			r.Shuffle(len(nl), func(i, j int) { nl[i], nl[j] = nl[j], nl[i] })
			nl = nl[:*fExhMax]
		}
		trees = append(trees, nl...)
	}
	g := &gen{r: r, c: gc}
	illTyped := map[*Tree]bool{}
	for i := 0; i < *fN; i++ {
		typ := "b"
		if r.Intn(4) == 0 {
			typ = "i"
		}
		before := g.illTyped
		var t *Tree
		if i%9 == 8 {
			t = g.spine(typ, 6+r.Intn(12))
		} else {
			t, _ = g.tree(typ, 1+r.Intn(*fDepth))
		}
		if len(t.Kids) == 0 {
			i--
			continue
		}
		if g.illTyped > before {
			illTyped[t] = true
		}
		trees = append(trees, t)
	}

	if prop == "C02" {
		// same-kind and/or groups that ReduceNesting merges to just below / just above the operand limit,
		// below an operator that is not at the root
		fan := func(name, v string, n int) *Tree {
			t := op(name)
			for i := 0; i < n; i++ {
				t.Kids = append(t.Kids, vr(v))
			}
			return t
		}
		for _, ab := range [][2]int{{63, 64}, {64, 64}, {100, 40}} {
			trees = append(trees, op("not", op("and", fan("and", "x", ab[0]), fan("and", "y", ab[1]))))
			trees = append(trees, op("if", op("or", fan("or", "x", ab[0]), fan("||", "y", ab[1])), cst(int64(1)), cst(int64(2))))
			trees = append(trees, op("eq", op("and", fan("&&", "z", ab[0]), fan("and", "x", ab[1]), vr("y")), vr("y")))
		}
	}
	if prop == "C02" {
		// a ConstantMap constant whose Go type is not an engine value type: comparisons answer (never
		// equal to an int64), so folding them must give the answer the run-time comparison gives
		ki := func() *Tree { return &Tree{K: "c", V: M{"t": "x", "v": "int"}, Kids: []*Tree{}, Name: "KI"} }
		i3 := func() *Tree { return cst(int64(3)) }
		trees = append(trees,
			op("=", ki(), i3()), op("!=", ki(), i3()), op("eq", ki(), ki()), op("ne", named("K", int64(3)), ki()),
			op("if", op("==", ki(), i3()), cst(int64(1)), cst(int64(2))),
			op("and", vr("x"), op("!=", ki(), i3())),
			op("or", op("<", vr("n"), cst(int64(0))), op("eq", ki(), i3(), i3())),
			op("+", vr("n"), op("if", op("=", ki(), named("K", int64(3))), cst(int64(1)), cst(int64(2)))),
			op("not", op("=", i3(), ki())), op("f", op("=", ki(), i3()), vr("y")),
			op("and", op("ne", ki(), i3()), op("or", vr("y"), op("eq", ki(), i3()))))
	}
	seen := map[string]bool{}
	id := *fIDBase - 1
	for ti, t := range trees {
		src := t.Src()
		if seen[src] {
			continue
		}
		seen[src] = true
		curK = []int64{3, 3, 3, 7}[ti%4]
		setK(t, curK)
		id++
		rec := M{"fam": "eval", "for": prop, "id": id, "src": src, "tree": t, "illtyped": illTyped[t], "foreign": strings.Contains(src, "KI")}
		// bindings
		var envs []Env
		if id%3 == 0 {
			envs = smallEnvs(true)
		} else {
			for k := 0; k < 5; k++ {
				envs = append(envs, randEnv(r))
			}
		}
		if prop == "C01" {
			// bindings that make sub-expressions fail: drop one variable from some bindings
			for k := range envs {
				if k%3 == 2 {
					e2 := Env{}
					for n, v := range envs[k] {
						e2[n] = v
					}
					delete(e2, []string{"x", "y", "n", "z", "m"}[r.Intn(5)])
					envs[k] = e2
				}
			}
		}
		er := []interface{}{}
		for _, e := range envs {
			er = append(er, envRec(e))
		}
		rec["envs"] = er

		// variants
		var vs []ConfOpts
		switch prop {
		case "C01":
			vs = []ConfOpts{{Mask: 0}, {Mask: 0, Undefined: true}, {Mask: 0, How: "dir"}, {Mask: 0, How: "api", Spell: r.Intn(8), Undefined: r.Intn(3) == 0}}
		case "C02":
			for mk := 0; mk < 16; mk++ {
				vs = append(vs, ConfOpts{Mask: mk})
			}
			// the same subsets by directive / by directive overriding options, and under cost maps
			for k := 0; k < 6; k++ {
				mk := r.Intn(16)
				vs = append(vs, ConfOpts{Mask: mk, How: []string{"dir", "mix"}[k%2], Spell: r.Intn(36)})
			}
			vs = append(vs, ConfOpts{How: "dirx", Spell: r.Intn(1 << 20)}, ConfOpts{How: "dirx", Spell: r.Intn(1 << 20)})
			vs = append(vs, ConfOpts{Mask: r.Intn(16), How: "tail", Spell: r.Intn(2)}, ConfOpts{Mask: r.Intn(16), How: "tail", Spell: r.Intn(2)})
			// the same subsets through the library's Option constructors
			vs = append(vs, ConfOpts{Mask: r.Intn(16), How: "api", Spell: r.Intn(8)}, ConfOpts{Mask: r.Intn(16), How: "api", Spell: r.Intn(8)})
			for k := 0; k < 4; k++ {
				vs = append(vs, ConfOpts{Mask: 8 | r.Intn(8), Costs: costMaps[1+r.Intn(len(costMaps)-1)]})
			}
			// undefined-variable mode: every variable carries the same (undefined) key
			vs = append(vs, ConfOpts{Mask: 4 | r.Intn(16), Undefined: true}, ConfOpts{Mask: r.Intn(16), Undefined: true})
		case "C03":
			vs = []ConfOpts{{Mask: 0}, {Mask: 15}, {Mask: r.Intn(16)}, {Mask: r.Intn(16)},
				{Mask: 8 | r.Intn(8), Costs: costMaps[1+r.Intn(len(costMaps)-1)]}, {Mask: 4 | r.Intn(16), Undefined: true},
				{Mask: r.Intn(16), Events: []string{"report", "debug"}[r.Intn(2)]}}
		case "C10":
			vs = []ConfOpts{{Mask: 15}, {Mask: 1}, {Mask: r.Intn(16) | 1}, {Mask: r.Intn(16)}, {Mask: 1, How: "dir"},
				{Mask: 1 | r.Intn(16), NoStateless: true}, // p registered but NOT declared stateless, after configs that declare it
				{Mask: 1 | r.Intn(16), ManyStateless: []int{15, 16, 17, 20, 40}[r.Intn(5)]},
				{Mask: 1 | r.Intn(16), ManyStateless: 24, NoStateless: r.Intn(2) == 0}}
		default:
			vs = []ConfOpts{{Mask: 0}, {Mask: 15}}
		}
		reps := 1
		if prop == "C10" {
			reps = 3
		}
		vrecs := []interface{}{}
		for vi, o := range vs {
			wantProg := *fProgEvery > 0 && (id*31+vi)%*fProgEvery == 0
			c := compileVariant(src, o, wantProg)
			c.effAPIs = prop == "C03"
			if prop == "C01" && vi == 0 && !strings.Contains(src, "K") {
				c.src = src // (ConstantMap constants are not available through the convenience API)
			}
			runs := []interface{}{}
			if c.expr != nil {
				for ei, e := range envs {
					runs = append(runs, c.runEval(e, ei+1, reps, prop == "C01"))
				}
			}
			c.rec["runs"] = runs
			vrecs = append(vrecs, c.rec)
		}
		rec["vars"] = vrecs
		emit(rec)
	}
}
