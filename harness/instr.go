package main

// Instrumented fetchers and registered operators: they log what the engine asks of
// them (effects) and raise sentinel errors.  No semantics beyond the four custom
// operators the specification defines verbatim (Operators.tla: f, p, g, h).

import (
	"fmt"
	"github.com/onheap/eval"
	"os"
)

type Log struct {
	Eff   []M
	Phase string // "compile" or "eval"
	HC    int64  // calls of h so far (stateful across evaluations of one history)
	CCall []string
}

func (l *Log) reset() { l.Eff = nil }

func copyVals(ps []eval.Value) []interface{} {
	r := make([]interface{}, len(ps))
	for i, p := range ps {
		r[i] = tv(deepCopy(p))
	}
	return r
}

func deepCopy(v interface{}) interface{} {
	switch x := v.(type) {
	case []int64:
		return append([]int64{}, x...)
	case []string:
		return append([]string{}, x...)
	}
	return v
}

// Fetcher: binds names to values; names in Fail raise their sentinel; names not
// bound at all raise their sentinel too ("fetch:<name>"); Avail (if non-nil)
// restricts what Cached reports (TryEval).
type Fetcher struct {
	Vals  map[string]interface{}
	Avail map[string]bool // nil: everything bound is cached
	Log   *Log
	Quiet bool
}

func (f *Fetcher) Get(_ eval.VariableKey, s string) (eval.Value, error) {
	if f.Log != nil && !f.Quiet {
		f.Log.Eff = append(f.Log.Eff, M{"k": "get", "n": s})
	}
	v, ok := f.Vals[s]
	if !ok {
		return nil, sentinel("fetch:" + s)
	}
	if f.Avail != nil && !f.Avail[s] {
		// a truthful fetcher cannot produce a value it does not have
		return nil, sentinel("unavail:" + s)
	}
	return v, nil
}
func (f *Fetcher) Set(eval.VariableKey, string, eval.Value) error { return nil }
func (f *Fetcher) Cached(_ eval.VariableKey, s string) bool {
	if _, ok := f.Vals[s]; !ok {
		// unbound names: "available" so that the fetch is attempted and fails (as in Eval)
		return f.Avail == nil || f.Avail[s]
	}
	return f.Avail == nil || f.Avail[s]
}

func customOps(l *Log) map[string]eval.Operator {
	logCall := func(name string, ps []eval.Value, r eval.Value, err error) {
		if l.Phase == "compile" {
			l.CCall = append(l.CCall, name)
			return
		}
		l.Eff = append(l.Eff, M{"k": "call", "n": name, "ps": copyVals(ps), "r": outcome(r, err)})
	}
	ident := func(name string) eval.Operator {
		return func(_ *eval.Ctx, ps []eval.Value) (eval.Value, error) {
			if len(ps) == 0 {
				err := sentinel("op:" + name)
				logCall(name, ps, nil, err)
				return nil, err
			}
			logCall(name, ps, ps[0], nil)
			return ps[0], nil
		}
	}
	return map[string]eval.Operator{
		"one": func(_ *eval.Ctx, ps []eval.Value) (eval.Value, error) {
			logCall("one", ps, int64(1), nil)
			return int64(1), nil
		},
		"zt": func(_ *eval.Ctx, ps []eval.Value) (eval.Value, error) {
			logCall("zt", ps, true, nil)
			return true, nil
		},
		"zf": func(_ *eval.Ctx, ps []eval.Value) (eval.Value, error) {
			logCall("zf", ps, false, nil)
			return false, nil
		},
		// f (not declared stateless) and p (declared stateless) are deliberately two closures of ONE function literal:
		// they share a code pointer, so anything that identifies operators by code pointer conflates them
		"f": ident("f"),
		"p": ident("p"),
		"g": func(_ *eval.Ctx, ps []eval.Value) (eval.Value, error) {
			if len(ps) == 0 || ps[0] == int64(2) {
				err := sentinel("op:g")
				logCall("g", ps, nil, err)
				return nil, err
			}
			logCall("g", ps, ps[0], nil)
			return ps[0], nil
		},
		// boom: a registered operator that panics (on the argument 2); whatever the engine does with a
		// panicking operator, it does the same with and without events
		"boom": func(_ *eval.Ctx, ps []eval.Value) (eval.Value, error) {
			if len(ps) == 0 || ps[0] == int64(2) {
				logCall("boom", ps, nil, sentinel("op:boom"))
				panic("boom")
			}
			logCall("boom", ps, ps[0], nil)
			return ps[0], nil
		},
		"h": func(_ *eval.Ctx, ps []eval.Value) (eval.Value, error) {
			l.HC++
			logCall("h", ps, l.HC, nil)
			return l.HC, nil
		},
	}
}

// curK: the value the configs bind the ConstantMap constant K to.  Families that judge results against the reference
// semantics vary it from record to record (the same source then means something else under another config's constants);
// setK writes it into the K leaves of the record's tree, which is what the judge reads.
var curK = int64(3)

func setK(t *Tree, k int64) {
	if t.K == "c" && t.Name == "K" {
		t.V = tv(k)
	}
	for _, c := range t.Kids {
		setK(c, k)
	}
}

var varNames = []string{"x", "y", "z", "n", "m", "s", "l", "e"}

type ConfOpts struct {
	Mask          int    // bit0 cf, bit1 rn, bit2 fe, bit3 ro
	How           string // "opt": programmatic; "dir": by ;;;; directive; "mix": directive overrides opposite option
	Undefined     bool
	Events        string // "", "report", "debug"
	Infix         bool
	Costs         map[string]float64
	Spell         int // how a directive is spelled (How == "dir")
	NoStateless   bool
	ManyStateless int // that many further names declared stateless (before and after p in the list, unsorted)
}

var optNames = []eval.CompileOption{eval.ConstantFolding, eval.ReduceNesting, eval.FastEvaluation, eval.Reordering}
var maskKeys = []string{"cf", "rn", "fe", "ro"}

func maskRec(mask int) M {
	m := M{}
	for j, k := range maskKeys {
		m[k] = mask&(1<<uint(j)) != 0
	}
	return m
}

// newConf builds a config with the small universe registered; returns the directive
// prefix to put in front of the source (empty for programmatic options).
// foreignConsts: register the constant KI with a Go value outside the engine's value types
var foreignConsts bool

func newConf(o ConfOpts, l *Log) (*eval.Config, string) {
	if o.How == "api" {
		return newConfAPI(o, l), ""
	}
	cc := eval.NewConfig()
	if !o.Undefined {
		for _, v := range varNames {
			eval.GetOrRegisterKey(cc, v)
		}
	} else {
		cc.CompileOptions[eval.AllowUndefinedVariable] = true
	}
	for n, f := range customOps(l) {
		cc.OperatorMap[n] = f
	}
	for k := 0; k < o.ManyStateless/2; k++ {
		cc.StatelessOperators = append(cc.StatelessOperators, fmt.Sprintf("q%02d", (k*7)%o.ManyStateless))
	}
	if !o.NoStateless {
		cc.StatelessOperators = append(cc.StatelessOperators, "p")
	}
	for k := o.ManyStateless / 2; k < o.ManyStateless; k++ {
		cc.StatelessOperators = append(cc.StatelessOperators, fmt.Sprintf("%s%02d", []string{"q", "a", "zz"}[k%3], k))
	}
	cc.ConstantMap["K"] = curK
	cc.ConstantMap["KT"] = true
	if foreignConsts {
		cc.ConstantMap["KI"] = int(3) // a Go int: not one of the engine's value types
	}
	for k, v := range o.Costs {
		cc.CostsMap[k] = v
	}
	switch o.Events {
	case "report":
		cc.CompileOptions[eval.ReportEvent] = true
	case "debug":
		cc.CompileOptions[eval.Debug] = true
	}
	if o.Infix {
		cc.CompileOptions[eval.InfixNotation] = true
	}
	dir := ""
	on := func(j int) bool { return o.Mask&(1<<uint(j)) != 0 }
	switch o.How {
	case "dir":
		// spelled in one of several equivalent ways (Spell selects: separate lines, spacing, every
		// boolean spelling strconv.ParseBool accepts, a leading ordinary comment)
		tw := [][2]string{{"true", "false"}, {"TRUE", "FALSE"}, {"True", "False"}, {"t", "f"}, {"T", "F"}, {"1", "0"}}[o.Spell%6]
		word := func(b bool) string {
			if b {
				return tw[0]
			}
			return tw[1]
		}
		sep, colon := ", ", ":"
		switch (o.Spell / 6) % 3 {
		case 1:
			sep, colon = ",", " : "
		case 2:
			sep = "\n;;;; "
		}
		if (o.Spell/18)%2 == 1 {
			dir = "; an ordinary comment\n  "
		}
		dir += ";;;;"
		if o.Spell%2 == 0 {
			dir += " "
		}
		for j, n := range optNames {
			if j > 0 {
				dir += sep
			}
			dir += string(n) + colon + word(on(j))
		}
		dir += "\n"
	case "dirx":
		// pairs in random order incl. `optimize` at a random position, possibly repeated names: what
		// they mean is decided by the specification (Parser!Directives), not here
		names := []string{"optimize", "constant_folding", "reduce_nesting", "fast_evaluation", "reordering"}
		n := 2 + o.Spell%4
		x := o.Spell
		dir = ";;;; "
		for k := 0; k < n; k++ {
			x = x*1103515245 + 12345
			if x < 0 {
				x = -x
			}
			if k > 0 {
				dir += ", "
			}
			dir += names[(x/7)%5] + ":" + map[bool]string{true: "true", false: "false"}[(x/64)%2 == 0]
		}
		dir += "\n"
		for _, n := range optNames {
			delete(cc.CompileOptions, n) // absent: enabled unless a directive says otherwise
		}
	case "mix":
		// options say the opposite; the directive (optimize:<first>, then per-option overrides) wins
		for j, n := range optNames {
			cc.CompileOptions[n] = !on(j)
		}
		dir = ";;;; optimize:" + map[bool]string{true: "true", false: "false"}[on(0)]
		for j, n := range optNames {
			if on(j) != on(0) {
				dir += ", " + string(n) + ":" + map[bool]string{true: "true", false: "false"}[on(j)]
			}
		}
		dir += "\n"
	default:
		for j, n := range optNames {
			cc.CompileOptions[n] = on(j)
		}
	}
	return cc, dir
}

// newConfAPI builds the same configuration through the library's own constructors: NewConfig with Option
// values (Optimizations in several equivalent spellings, EnableUndefinedVariable, EnableReportEvent /
// EnableDebug, EnableInfixNotation, RegVarAndOp for variables and operators, ExtendConf).
func newConfAPI(o ConfOpts, l *Log) *eval.Config {
	on := func(j int) bool { return o.Mask&(1<<uint(j)) != 0 }
	var enabled, disabled []eval.CompileOption
	for j, n := range optNames {
		if on(j) {
			enabled = append(enabled, n)
		} else {
			disabled = append(disabled, n)
		}
	}
	var opts []eval.Option
	switch o.Spell % 4 {
	case 0: // everything off, then the enabled ones on
		opts = append(opts, eval.Optimizations(false))
		if len(enabled) > 0 {
			opts = append(opts, eval.Optimizations(true, enabled...))
		}
	case 1: // everything on (spelled with the Optimize pseudo-option), then the disabled ones off
		opts = append(opts, eval.Optimizations(true, eval.Optimize))
		if len(disabled) > 0 {
			opts = append(opts, eval.Optimizations(false, disabled...))
		}
	case 2: // one call per optimizer, in reverse order, after a contrary blanket call
		opts = append(opts, eval.Optimizations(!on(0)))
		for j := len(optNames) - 1; j >= 0; j-- {
			opts = append(opts, eval.Optimizations(on(j), optNames[j]))
		}
	default: // names that are not optimizers are ignored by Optimizations
		opts = append(opts, eval.Optimizations(true), eval.Optimizations(false, eval.ReportEvent, eval.Debug))
		if len(disabled) > 0 {
			opts = append(opts, eval.Optimizations(false, disabled...))
		}
	}
	vals := map[string]interface{}{}
	if !o.Undefined {
		for _, v := range varNames {
			vals[v] = 0
		}
	} else {
		opts = append(opts, eval.EnableUndefinedVariable)
	}
	ops := customOps(l)
	for n, f := range ops {
		if len(n)%2 == 0 {
			vals[n] = f // through RegVarAndOp
		}
	}
	opts = append(opts, eval.RegVarAndOp(vals))
	switch o.Events {
	case "report":
		opts = append(opts, eval.EnableReportEvent)
	case "debug":
		opts = append(opts, eval.EnableDebug)
	}
	if o.Infix {
		opts = append(opts, eval.EnableInfixNotation)
	}
	cc := eval.NewConfig(opts...)
	for n, f := range ops {
		if len(n)%2 == 1 {
			if err := eval.RegisterOperator(cc, n, f); err != nil {
				fmt.Fprintln(os.Stderr, "RegisterOperator refused a fresh name:", n, err)
			}
		}
	}
	if !o.NoStateless {
		cc.StatelessOperators = append(cc.StatelessOperators, "p")
	}
	cc.ConstantMap["K"] = curK
	cc.ConstantMap["KT"] = true
	if foreignConsts {
		cc.ConstantMap["KI"] = int(3)
	}
	for k, v := range o.Costs {
		cc.CostsMap[k] = v
	}
	if o.Spell%2 == 1 {
		return eval.NewConfig(eval.ExtendConf(cc)) // a config extended from another
	}
	return cc
}

// progJSON renders an exported flat program in the specification's node format
// (1-based indices, 0 for "none").
func progJSON(vp eval.VerifProg) M {
	nodes := []interface{}{}
	for _, nd := range vp.Nodes {
		ty := map[string]string{"constant": "c", "variable": "v", "operator": "o",
			"fast_operator": "f", "cond": "if", "event": "ev"}[nd.Type]
		var val interface{}
		switch ty {
		case "c":
			val = tv(nd.Value)
		case "if":
			val = toStr(nd.Value)
			if val == "fi" {
				ty = "fi"
			}
		case "ev":
			val = int(nd.Value.(eval.LoopEventData).CurtIdx) + 1
		default:
			val = toStr(nd.Value)
		}
		nodes = append(nodes, M{"ty": ty, "val": val, "cc": nd.ChildCnt, "sc": nd.ScIdx + 1, "top": nd.OsTop + 1,
			"sct": nd.ScT, "scf": nd.ScF, "pand": nd.PAnd, "por": nd.POr, "par": nd.Parent + 1})
	}
	return M{"max": vp.MaxStack, "nodes": nodes}
}

func toStr(v interface{}) string {
	switch x := v.(type) {
	case string:
		return x
	}
	return sprint(v)
}
