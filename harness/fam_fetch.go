package main

// Family "fetch": histories of Get/Set/Cached calls on the library's own variable
// contexts (NewCtxFromVars, NewSliceVarFetcher, NewMapVarFetcher), judged step by
// step against Fetchers.tla.  TryEval's meaning (C04/C05) is stated against what
// the context reports as cached; this binds that notion for the library's contexts.

import (
	"math/rand"
	"sort"
	"time"

	"github.com/onheap/eval"
)

// rawVal returns a Go value of one of the types NewCtxFromVars accepts and the engine
// value it has to become.
func rawVal(r *rand.Rand) (raw interface{}, goType string, canon interface{}) {
	n := int64(r.Intn(7) - 3)
	switch r.Intn(16) {
	case 0:
		return int(n), "int", n
	case 1:
		return int32(n), "int32", n
	case 2:
		return int16(n), "int16", n
	case 3:
		return int8(n), "int8", n
	case 4:
		return uint8(n + 3), "uint8", n + 3
	case 5:
		return uint16(n + 3), "uint16", n + 3
	case 6:
		return uint32(n + 3), "uint32", n + 3
	case 7:
		return uint64(n + 3), "uint64", n + 3
	case 8:
		return time.Duration(n) * time.Second, "time.Duration", n
	case 9:
		return time.Unix(n+100, 0), "time.Time", n + 100
	case 10:
		return []int{int(n), 1}, "[]int", []int64{n, 1}
	case 11:
		return []int32{int32(n)}, "[]int32", []int64{n}
	case 12:
		return r.Intn(2) == 0, "bool", nil
	case 13:
		return []string{"a", "b"}[r.Intn(2)], "string", nil
	case 14:
		return []int64{n, n + 1}, "[]int64", nil
	}
	return n, "int64", nil
}

func famFetch() {
	r := rand.New(rand.NewSource(*fSeed))
	prop := *fFor
	names := []string{"a", "b", "c", "d"}
	keyPool := []int{-32768, -1, 0, 1, 2, 3, 254, 255, 256, 300}
	setVals := []interface{}{int64(5), true, "s", nil, []int64{1}}
	id := *fIDBase - 1
	for i := 0; i < *fN; i++ {
		id++
		cc := eval.NewConfig()
		undef := r.Intn(5) == 0
		if undef {
			cc.CompileOptions[eval.AllowUndefinedVariable] = true
		}
		// an injective key map over a random subset of the names; mostly keys the slice fetcher can hold
		pool := append([]int{}, keyPool...)
		if r.Intn(3) > 0 {
			pool = []int{0, 1, 2, 3, 254, 255}
		}
		r.Shuffle(len(pool), func(a, b int) { pool[a], pool[b] = pool[b], pool[a] })
		var reg []string
		km := []interface{}{}
		for j, n := range names {
			if r.Intn(4) > 0 {
				cc.VariableKeyMap[n] = eval.VariableKey(pool[j])
				reg = append(reg, n)
				km = append(km, M{"n": n, "k": pool[j]})
			}
		}
		vals := map[string]interface{}{}
		vrec := []interface{}{}
		for _, n := range append(append([]string{}, names...), "u") {
			if r.Intn(2) == 0 {
				raw, gt, canon := rawVal(r)
				if canon == nil {
					canon = raw
				}
				vals[n] = raw
				vrec = append(vrec, M{"n": n, "go": gt, "v": tv(canon)})
			}
		}
		sort.Slice(vrec, func(a, b int) bool { return vrec[a].(M)["n"].(string) < vrec[b].(M)["n"].(string) })
		// how the context is built
		mode := "ctx"
		nonneg := len(reg) > 0
		for _, n := range reg {
			if cc.VariableKeyMap[n] < 0 {
				nonneg = false
			}
		}
		switch r.Intn(6) {
		case 0:
			if nonneg {
				mode = "slice"
			}
		case 1:
			mode = "map"
		}
		var f eval.VariableFetcher
		built := safely(func() M {
			switch mode {
			case "ctx":
				f = eval.NewCtxFromVars(cc, vals).VariableFetcher
			case "slice":
				f = eval.NewSliceVarFetcher(cc, vals)
			case "map":
				f = eval.NewMapVarFetcher(vals)
			}
			return nil
		})
		rec := M{"fam": "fetch", "for": prop, "id": id, "km": km, "undef": undef, "vals": vrec, "mode": mode}
		if built != nil {
			rec["kind"], rec["ops"] = "panic", []interface{}{}
			emit(rec)
			continue
		}
		switch f.(type) {
		case eval.SliceVarFetcher:
			rec["kind"] = "slice"
		case eval.MapVarFetcher:
			rec["kind"] = "map"
		default:
			rec["kind"] = "other"
		}
		type pair struct {
			k int
			n string
		}
		var pairs []pair
		for _, n := range reg {
			pairs = append(pairs, pair{int(cc.VariableKeyMap[n]), n})
		}
		ops := []interface{}{}
		do := func(kind string, p pair, val interface{}, init bool) {
			o := M{"op": kind, "k": p.k, "n": p.n, "init": init, "val": tv(val)}
			o["res"] = safely(func() M {
				switch kind {
				case "get":
					v, err := f.Get(eval.VariableKey(p.k), p.n)
					return outcome(v, err)
				case "cached":
					return tv(f.Cached(eval.VariableKey(p.k), p.n))
				default:
					if err := f.Set(eval.VariableKey(p.k), p.n, val); err != nil {
						return te(err)
					}
					return tv(true)
				}
			})
			ops = append(ops, o)
		}
		// first: what the fresh context says about every registered variable
		for _, p := range pairs {
			do("cached", p, nil, true)
			if p.k >= 0 || rec["kind"] == "map" {
				do("get", p, nil, true)
			}
		}
		// then a random history, with registered pairs, the pair of an undefined variable, and odd pairs
		extra := []pair{{int(eval.UndefinedVarKey), "u"}, {256, "u"}, {1, "u"}, {300, "a"}, {0, "zz"}}
		for k := 0; k < 10; k++ {
			var p pair
			if len(pairs) > 0 && r.Intn(3) > 0 {
				p = pairs[r.Intn(len(pairs))]
			} else {
				p = extra[r.Intn(len(extra))]
			}
			switch r.Intn(3) {
			case 0:
				do("get", p, nil, false)
			case 1:
				do("cached", p, nil, false)
			default:
				do("set", p, setVals[r.Intn(len(setVals))], false)
			}
		}
		rec["ops"] = ops
		emit(rec)
	}
}

func init() { families["fetch"] = famFetch }
