package main

// Seeded, typed random generator of expression trees (structure only) and an
// exhaustive enumerator of small trees.  Types: "b" bool, "i" int, "s" string,
// "il" int list, "sl" string list.  Integers are kept small by a static bound so
// that the judge (TLC, 32-bit integers) never leaves its window.

import (
	"math/rand"
)

type GenCfg struct {
	Boom       bool // panicking operator boom (panics on the argument 2, identity otherwise)
	Foreign    bool // ConstantMap constant KI of Go type int (no engine value type: arithmetic on it is a type error)
	FailVar    bool // failing (unbound) variable e
	Failing    bool // failing operator g
	Custom     bool // registered operators f, p
	H          bool // stateful operator h
	WrongBool  bool // occasionally a non-boolean operand of and/or (outside C01's domain; C10 folds around them)
	Wrong      bool // occasionally ill-typed operands of non-and/or operators, non-bool if condition
	Lists      bool
	Strings    bool
	OddStrings bool // also string literals with spaces / brackets (families that do not bind a text-level parser model)
	Consts     bool // ConstantMap constants K, KT
	Alias      bool // use operator aliases
	MaxKids    int  // max operands of n-ary operators (>= 2)
	ConstBias  int  // percent of leaves that are constants
}

type gen struct {
	r        *rand.Rand
	c        GenCfg
	illTyped int // number of deliberately ill-typed and/or operands generated so far
}

func (g *gen) pick(names ...string) string {
	if !g.c.Alias {
		return names[0]
	}
	return names[g.r.Intn(len(names))]
}

func (g *gen) nk() int {
	mk := g.c.MaxKids
	if mk < 2 {
		mk = 2
	}
	n := 2
	for n < mk && g.r.Intn(3) == 0 {
		n++
	}
	if n == mk && g.r.Intn(4) == 0 {
		n += 1 + g.r.Intn(4) // now and then five to eight operands
	}
	return n
}

// spine generates a deep, narrow tree: at every level one operand continues the spine
// (at a random position), the others are leaves or shallow trees.  Deep nesting reaches
// the stack classes (8 / 16 slots) and long jump chains that bushy random trees never do.
func (g *gen) spine(typ string, d int) *Tree {
	if d <= 0 {
		t, _ := g.leaf(typ)
		return t
	}
	r := g.r
	small := func(t string) *Tree { x, _ := g.tree(t, r.Intn(2)); return x }
	place := func(name string, spineKid *Tree, others ...*Tree) *Tree {
		kids := append([]*Tree{}, others...)
		pos := r.Intn(len(kids) + 1)
		kids = append(kids[:pos], append([]*Tree{spineKid}, kids[pos:]...)...)
		return op(name, kids...)
	}
	switch typ {
	case "i":
		switch r.Intn(4) {
		case 0:
			return place(g.pick("+", "add"), g.spine("i", d-1), small("i"))
		case 1:
			return place(g.pick("+", "add"), g.spine("i", d-1), small("i"), small("i"))
		case 2:
			// if: spine in the condition, the true or the false branch
			switch r.Intn(3) {
			case 0:
				return op("if", g.spine("b", d-1), small("i"), small("i"))
			case 1:
				return op("if", small("b"), g.spine("i", d-1), small("i"))
			}
			return op("if", small("b"), small("i"), g.spine("i", d-1))
		}
		return place(g.pick("-", "sub"), g.spine("i", d-1), small("i"))
	}
	switch r.Intn(7) {
	case 0, 1:
		n := 1 + r.Intn(3)
		others := make([]*Tree, n)
		for i := range others {
			others[i] = small("b")
		}
		return place(g.pick("and", "&&", "&"), g.spine("b", d-1), others...)
	case 2, 3:
		n := 1 + r.Intn(3)
		others := make([]*Tree, n)
		for i := range others {
			others[i] = small("b")
		}
		return place(g.pick("or", "||", "|"), g.spine("b", d-1), others...)
	case 4:
		switch r.Intn(3) {
		case 0:
			return op("if", g.spine("b", d-1), small("b"), small("b"))
		case 1:
			return op("if", small("b"), g.spine("b", d-1), small("b"))
		}
		return op("if", small("b"), small("b"), g.spine("b", d-1))
	case 5:
		return op(g.pick("not", "!"), g.spine("b", d-1))
	}
	return place(g.pick(">", "gt", "<=", "le"), g.spine("i", d-1), small("i"))
}

const boundMax = int64(1) << 20

// leafB etc. return a leaf of the type.
func (g *gen) leaf(typ string) (*Tree, int64) {
	cb := g.c.ConstBias
	if cb == 0 {
		cb = 40
	}
	isConst := g.r.Intn(100) < cb
	switch typ {
	case "b":
		if g.c.FailVar && g.r.Intn(12) == 0 {
			return vr("e"), 1
		}
		if isConst {
			if g.c.Consts && g.r.Intn(6) == 0 {
				return named("KT", true), 1
			}
			return cst(g.r.Intn(2) == 0), 1
		}
		return vr([]string{"x", "y", "z"}[g.r.Intn(3)]), 1
	case "i":
		if isConst {
			if g.c.Foreign && g.r.Intn(8) == 0 {
				return &Tree{K: "c", V: M{"t": "x", "v": "int"}, Kids: []*Tree{}, Name: "KI"}, 3
			}
			if g.c.Consts && g.r.Intn(6) == 0 {
				return named("K", int64(3)), 3
			}
			v := int64(g.r.Intn(6) - 2)
			return cst(v), 3
		}
		return vr([]string{"n", "m"}[g.r.Intn(2)]), 3
	case "s":
		if isConst || !g.c.Strings {
			if g.r.Intn(8) == 0 {
				// strings that spell internal markers, keywords and sentinels
				return cst([]string{"fi", "if", "DNE", "true", "and"}[g.r.Intn(5)]), 1
			}
			if g.r.Intn(7) == 0 {
				// strings that print like values of another type, or like two strings (anything that keys on the
				// printed form of an operand conflates them with those)
				if g.c.OddStrings {
					return cst([]string{"1", "3", "0", "true", "a a", "a b", "[1 2]"}[g.r.Intn(7)]), 1
				}
				return cst([]string{"1", "3", "0", "true"}[g.r.Intn(4)]), 1
			}
			return cst([]string{"a", "b", ""}[g.r.Intn(3)]), 1
		}
		return vr("s"), 1
	case "il":
		if isConst || g.r.Intn(2) == 0 {
			return cst([][]int64{{1, 2}, {0}, {2, 2, 3}, {-1, 0, 1}, {2, -2, 3, -1}}[g.r.Intn(5)]), 1
		}
		return vr("l"), 1
	case "sl":
		return cst([][]string{{"a", "b"}, {}, {"b"}, {"", "a"}, {"fi", "a"}}[g.r.Intn(5)]), 1
	}
	panic("leaf type " + typ)
}

// tree generates a tree of the given type and depth; the second result is a static
// bound on the absolute value of an int-typed tree.
func (g *gen) tree(typ string, d int) (*Tree, int64) {
	if d <= 0 || g.r.Intn(6) == 0 {
		return g.leaf(typ)
	}
	r := g.r
	sub := func(t string) *Tree { x, _ := g.tree(t, d-1); return x }
	wrongType := func(t string) string {
		if g.c.Wrong && r.Intn(25) == 0 {
			alt := []string{"b", "i", "s"}
			return alt[r.Intn(len(alt))]
		}
		return t
	}
	switch typ {
	case "i":
		for {
			switch r.Intn(9) {
			case 0, 1:
				n := g.nk()
				t := op(g.pick("+", "add"))
				var b int64
				for i := 0; i < n; i++ {
					k, kb := g.tree(wrongType("i"), d-1)
					t.Kids = append(t.Kids, k)
					b += kb
				}
				return t, b
			case 2:
				n := g.nk()
				t := op(g.pick("-", "sub"))
				var b int64
				for i := 0; i < n; i++ {
					k, kb := g.tree("i", d-1)
					t.Kids = append(t.Kids, k)
					b += kb
				}
				return t, b
			case 3:
				n := 2 + r.Intn(2)
				t := op(g.pick("*", "mul"))
				b := int64(1)
				for i := 0; i < n; i++ {
					k, kb := g.tree("i", d-1)
					t.Kids = append(t.Kids, k)
					b *= kb
					if b > boundMax {
						break
					}
				}
				if b > boundMax || len(t.Kids) < 2 {
					continue
				}
				return t, b
			case 4:
				a, ab := g.tree("i", d-1)
				b, _ := g.tree("i", d-1)
				return op(g.pick("/", "div"), a, b), ab
			case 5:
				a, ab := g.tree("i", d-1)
				b, _ := g.tree("i", d-1)
				return op(g.pick("%", "mod"), a, b), ab
			case 6:
				c := sub(wrongTypeIf(g, "b"))
				a, ab := g.tree("i", d-1)
				b, bb := g.tree("i", d-1)
				if bb > ab {
					ab = bb
				}
				return op("if", c, a, b), ab
			case 7:
				if g.c.Boom && r.Intn(4) == 0 {
					a, ab := g.tree("i", d-1)
					return op("boom", a), ab
				}
				if g.c.Failing {
					a, ab := g.tree("i", d-1)
					return op("g", a), ab
				}
			case 8:
				if g.c.H && r.Intn(2) == 0 {
					return op("h", cst(int64(0))), 1000
				}
				if g.c.Custom {
					if r.Intn(4) == 0 {
						return op("one"), 1 // zero-operand operator: pushes without popping
					}
					a, ab := g.tree("i", d-1)
					if r.Intn(3) == 0 {
						b, _ := g.tree("i", d-1)
						return op(g.pick("f", "p"), a, b), ab
					}
					return op(g.pick("f", "p"), a), ab
				}
			}
		}
	case "b":
		for {
			switch r.Intn(16) {
			case 0, 1, 2:
				n := g.nk()
				t := op(g.pick("and", "&&", "&"))
				for i := 0; i < n; i++ {
					if g.c.WrongBool && r.Intn(8) == 0 {
						g.illTyped++
						t.Kids = append(t.Kids, sub([]string{"i", "s"}[r.Intn(2)]))
						continue
					}
					t.Kids = append(t.Kids, sub("b"))
				}
				return t, 1
			case 3, 4, 5:
				n := g.nk()
				t := op(g.pick("or", "||", "|"))
				for i := 0; i < n; i++ {
					if g.c.WrongBool && r.Intn(8) == 0 {
						g.illTyped++
						t.Kids = append(t.Kids, sub([]string{"i", "s"}[r.Intn(2)]))
						continue
					}
					t.Kids = append(t.Kids, sub("b"))
				}
				return t, 1
			case 6:
				return op(g.pick("not", "!"), sub(wrongType("b"))), 1
			case 7:
				return op("if", sub(wrongTypeIf(g, "b")), sub("b"), sub("b")), 1
			case 8:
				ty := []string{"b", "i", "s"}[r.Intn(3)]
				if ty == "s" && !g.c.Strings {
					ty = "i"
				}
				n := 2
				if r.Intn(4) == 0 {
					n = 3
				}
				t := op(g.pick("eq", "=", "=="))
				mixed := r.Intn(6) == 0 // scalars of different types are simply not equal
				for i := 0; i < n; i++ {
					if mixed {
						ty = []string{"b", "i", "s"}[r.Intn(3)]
						if ty == "s" && !g.c.Strings {
							ty = "i"
						}
					}
					t.Kids = append(t.Kids, sub(ty))
				}
				return t, 1
			case 9:
				ty := []string{"b", "i"}[r.Intn(2)]
				return op(g.pick("ne", "!="), sub(ty), sub(ty)), 1
			case 10, 11:
				o := [][]string{{"gt", ">"}, {"lt", "<"}, {"ge", ">="}, {"le", "<="}}[r.Intn(4)]
				return op(g.pick(o...), sub(wrongType("i")), sub("i")), 1
			case 12:
				if r.Intn(2) == 0 {
					return op("between", sub("i"), sub("i"), sub("i")), 1
				}
				return op("xor", sub("b"), sub("b")), 1
			case 13:
				if g.c.Lists {
					if g.c.Strings && r.Intn(3) == 0 {
						return op("in", sub("s"), sub("sl")), 1
					}
					if r.Intn(3) == 0 {
						return op("overlap", sub("il"), sub("il")), 1
					}
					return op("in", sub("i"), sub("il")), 1
				}
			case 14:
				if g.c.Custom {
					if r.Intn(5) == 0 {
						return op([]string{"zt", "zf"}[r.Intn(2)]), 1 // zero-operand operator deciding an and/or
					}
					if r.Intn(3) == 0 {
						return op(g.pick("f", "p"), sub("b"), sub("b")), 1
					}
					return op(g.pick("f", "p"), sub("b")), 1
				}
			case 15:
				if g.c.Failing {
					// a boolean produced from a possibly failing int: (> (g n) 0)
					return op(">", op("g", sub("i")), cst(int64(0))), 1
				}
			}
		}
	case "s":
		if r.Intn(2) == 0 {
			return op("if", sub("b"), sub("s"), sub("s")), 1
		}
		return g.leaf("s")
	case "il", "sl":
		if r.Intn(3) == 0 {
			return op("if", sub("b"), sub(typ), sub(typ)), 1
		}
		return g.leaf(typ)
	}
	panic("tree type " + typ)
}

func wrongTypeIf(g *gen, t string) string {
	if g.c.Wrong && g.r.Intn(30) == 0 {
		return "i"
	}
	return t
}

// boundOf recomputes a static bound of an int-typed tree.
func boundOf(t *Tree) int64 {
	switch t.K {
	case "c":
		m := t.V.(M)
		if m["t"] == "i" {
			v := num(m["v"])
			if v < 0 {
				v = -v
			}
			if v < 1 {
				v = 1
			}
			return v
		}
		return 1
	case "v":
		return 3
	case "if":
		a, b := boundOf(t.Kids[1]), boundOf(t.Kids[2])
		if a > b {
			return a
		}
		return b
	}
	switch t.V.(string) {
	case "+", "add", "-", "sub":
		var s int64
		for _, k := range t.Kids {
			s += boundOf(k)
		}
		return s
	case "*", "mul":
		s := int64(1)
		for _, k := range t.Kids {
			s *= boundOf(k)
		}
		return s
	case "h":
		return 1000
	}
	if len(t.Kids) > 0 {
		return boundOf(t.Kids[0])
	}
	return 1
}

// ---- exhaustive enumeration of small boolean trees over a fixed universe ----

func enumLeaves(typ string, failing bool) []*Tree {
	switch typ {
	case "b":
		r := []*Tree{cst(true), cst(false), vr("x"), vr("y")}
		if failing {
			r = append(r, vr("e"))
		}
		return r
	case "i":
		return []*Tree{cst(int64(0)), cst(int64(2)), vr("n")}
	}
	return nil
}

// enumTrees returns all trees of the type up to the depth over a compact operator set.
func enumTrees(typ string, d int, failing bool, custom bool) []*Tree {
	out := append([]*Tree{}, enumLeaves(typ, failing)...)
	if d == 0 {
		return out
	}
	bs := enumTrees("b", d-1, failing, custom)
	is := enumTrees("i", d-1, failing, custom)
	if typ == "i" {
		for _, a := range is {
			for _, b := range is {
				out = append(out, op("/", a, b))
			}
			if failing {
				out = append(out, op("g", a))
			}
		}
		return out
	}
	for _, a := range bs {
		out = append(out, op("not", a))
		if custom {
			out = append(out, op("f", a))
		}
		for _, b := range bs {
			out = append(out, op("and", a, b), op("or", a, b), op("eq", a, b))
		}
	}
	for _, a := range is {
		for _, b := range is {
			out = append(out, op(">", a, b))
		}
	}
	if d == 1 {
		for _, c := range bs {
			for _, a := range bs {
				for _, b := range bs {
					out = append(out, op("if", c, a, b))
				}
			}
		}
	}
	return out
}
