package main

// Family "reg" (C11): registration histories on a real Config (pre-populated key map,
// GetOrRegisterKey / RegVarAndOp in a given order, repeated registrations), the key map
// after every step, and the value every variable reads under NewCtxFromVars and under
// both fetchers explicitly, for bindings of every source type of the normalisation table.

import (
	"fmt"
	"math/rand"
	"sort"
	"time"

	"github.com/onheap/eval"
)

type binding struct {
	kind string
	raw  interface{} // payload recorded for the judge
	val  interface{} // the Go value supplied
}

func bindingsFor(r *rand.Rand) []binding {
	t := time.Date(1970+r.Intn(33), time.Month(1+r.Intn(12)), 1+r.Intn(28), r.Intn(24), r.Intn(60), r.Intn(60), 0, time.UTC)
	ms := int64(r.Intn(20000) - 10000)
	// a duration as whole seconds + nanoseconds of the same sign: int64(d / time.Second) is the seconds
	secs := []int64{0, 1, 59, 86400 * 194, 86400 * 200, 86400 * 365 * 20, 1000000000, int64(r.Intn(1000000000))}[r.Intn(8)]
	nanos := []int64{0, 1, 2, 499999999, 500000000, 999999998, 999999999, int64(r.Intn(1000000000))}[r.Intn(8)]
	if r.Intn(2) == 0 {
		secs, nanos = -secs, -nanos
	}
	// a time.Time by its UTC civil fields: the zero Time, the ends of the year range, the ends of what fits
	// nanoseconds-since-1970 in an int64 (1677-09-21 / 2262-04-11), instants before 1970 with a sub-second part
	civ := [][7]int{{1, 1, 1, 0, 0, 0, 0}, {9999, 12, 31, 23, 59, 59, 999999999}, {1677, 9, 21, 0, 12, 43, 145224192}, {1677, 9, 20, 12, 0, 0, 0},
		{2262, 4, 11, 23, 47, 16, 854775807}, {2262, 4, 12, 0, 0, 0, 1}, {1969, 12, 31, 23, 59, 59, 500000000}, {1900, 1, 1, 0, 0, 0, 1},
		{2038, 1, 19, 3, 14, 8, 0}, {1970, 1, 1, 0, 0, 0, 0}, {1 + r.Intn(9999), 1 + r.Intn(12), 1 + r.Intn(28), r.Intn(24), r.Intn(60), r.Intn(60), r.Intn(1000000000)}}[r.Intn(11)]
	ct := time.Date(civ[0], time.Month(civ[1]), civ[2], civ[3], civ[4], civ[5], civ[6], time.UTC)
	if civ == [7]int{1, 1, 1, 0, 0, 0, 0} {
		ct = time.Time{}
	} else if r.Intn(3) == 0 {
		ct = ct.In(time.FixedZone("x", []int{9 * 3600, -5 * 3600, 1800}[r.Intn(3)])) // the same instant in another location
	}
	return []binding{
		{"time_civil", []interface{}{civ[0], civ[1], civ[2], civ[3], civ[4], civ[5]}, ct},
		{"duration_sn", []interface{}{secs, nanos}, time.Duration(secs)*time.Second + time.Duration(nanos)},
		{"int", 7, int(7)}, {"int8", -8, int8(-8)}, {"int16", 300, int16(300)}, {"int32", -70000, int32(-70000)},
		{"int64", 123456, int64(123456)}, {"uint8", 200, uint8(200)}, {"uint16", 65535, uint16(65535)},
		{"uint32", 1 << 29, uint32(1 << 29)}, {"uint64", 99, uint64(99)}, {"uint64max", 0, uint64(1<<64 - 1)},
		{"[]int", []interface{}{1, 2}, []int{1, 2}}, {"[]int32", []interface{}{-3}, []int32{-3}}, {"[]int64", []interface{}{5, 6, 7}, []int64{5, 6, 7}},
		{"[]string", []interface{}{"a"}, []string{"a"}}, {"bool", true, true}, {"string", "s", "s"},
		{"duration_ms", ms, time.Duration(ms) * time.Millisecond}, {"unix", t.Unix(), t},
	}
}

func kmRec(cc *eval.Config) M {
	m := M{}
	for k, v := range cc.VariableKeyMap {
		m[k] = int(v)
	}
	return m
}

func famReg() {
	r := rand.New(rand.NewSource(*fSeed))
	id := *fIDBase - 1
	names := []string{"a", "b", "c", "d", "e", "f", "g", "h"}
	preKeys := []int{-32768, -2, 0, 1, 2, 3, 254, 255, 256, 32767, 5, 100}
	for i := 0; i < *fN; i++ {
		id++
		cc := eval.NewConfig()
		undef := r.Intn(5) == 0
		if undef {
			cc.CompileOptions[eval.AllowUndefinedVariable] = true
		}
		// pre-populate with distinct keys
		perm := r.Perm(len(preKeys))
		npre := r.Intn(4)
		nm := r.Perm(len(names))
		for j := 0; j < npre; j++ {
			cc.VariableKeyMap[names[nm[j]]] = eval.VariableKey(preKeys[perm[j]])
		}
		if r.Intn(8) == 0 {
			// a dense block around the slice / map boundary
			for k := 0; k < 3; k++ {
				cc.VariableKeyMap[fmt.Sprint("v", k)] = eval.VariableKey(253 + k + r.Intn(2))
			}
			// keep it injective
			seen := map[eval.VariableKey]bool{}
			for n, k := range cc.VariableKeyMap {
				if seen[k] {
					delete(cc.VariableKeyMap, n)
				}
				seen[k] = true
			}
		}
		rec := M{"fam": "reg", "for": "C11", "id": id, "undef": undef, "km0": kmRec(cc), "src": "registration history"}
		steps := []interface{}{}
		nsteps := 1 + r.Intn(6)
		probeOp := func(_ *eval.Ctx, ps []eval.Value) (eval.Value, error) { return true, nil }
		cc.OperatorMap["probe"] = probeOp
		// a program compiled BEFORE the history: in undefined-variable mode over names that may only be
		// registered later (or never), otherwise over names that already have a key
		var early *eval.Expr
		var earlyNames []string
		var earlySeen []eval.Value
		{
			var cand []string
			if undef {
				for _, ix := range r.Perm(len(names))[:3] {
					cand = append(cand, names[ix])
				}
			} else {
				for n := range cc.VariableKeyMap {
					cand = append(cand, n)
				}
				sort.Strings(cand)
				if len(cand) > 3 {
					cand = cand[:3]
				}
			}
			if len(cand) > 0 {
				cc0 := eval.CopyConfig(cc)
				cc0.OperatorMap["probe"] = func(_ *eval.Ctx, ps []eval.Value) (eval.Value, error) {
					earlySeen = append([]eval.Value{}, ps...)
					return true, nil
				}
				emask := []int{0, 4, 15}[r.Intn(3)]
				if emask == 4 && len(cand) > 2 {
					cand = cand[:2]
				}
				for j, n := range optNames {
					cc0.CompileOptions[n] = emask&(1<<uint(j)) != 0
				}
				src := "(probe"
				for _, n := range cand {
					src += " " + n
				}
				if e, err := eval.Compile(cc0, src+")"); err == nil {
					early, earlyNames = e, cand
				}
			}
		}
		for s := 0; s < nsteps; s++ {
			if r.Intn(4) == 0 {
				// RegVarAndOp with a set of names (Go map iteration order) and an operator
				set := map[string]interface{}{"probe": probeOp}
				var ns []interface{}
				for k := 0; k < 1+r.Intn(3); k++ {
					n := names[r.Intn(len(names))]
					if _, dup := set[n]; !dup {
						set[n] = 1
						ns = append(ns, n)
					}
				}
				eval.RegVarAndOp(set)(cc)
				steps = append(steps, M{"op": "regvarop", "names": ns, "key": 0, "km": kmRec(cc)})
			} else {
				n := names[r.Intn(len(names))]
				k := eval.GetOrRegisterKey(cc, n)
				steps = append(steps, M{"op": "reg", "names": []interface{}{n}, "key": int(k), "km": kmRec(cc)})
			}
		}
		if early != nil && undef && r.Intn(2) == 0 {
			// lazy registration: the names of the early program get their keys only now
			for _, n := range earlyNames {
				k := eval.GetOrRegisterKey(cc, n)
				steps = append(steps, M{"op": "reg", "names": []interface{}{n}, "key": int(k), "km": kmRec(cc)})
			}
		}
		rec["steps"] = steps
		// read every registered variable through an expression, under both fetchers
		var regd []string
		for n := range cc.VariableKeyMap {
			regd = append(regd, n)
		}
		if undef {
			regd = append(regd, "u1", "u2") // not registered: read by name through the undefined key
			for _, n := range earlyNames {
				if _, ok := cc.VariableKeyMap[n]; !ok {
					regd = append(regd, n)
				}
			}
		}
		sort.Strings(regd)
		bs := bindingsFor(r)
		vals := map[string]interface{}{}
		brec := M{}
		for _, n := range regd {
			b := bs[r.Intn(len(bs))]
			vals[n] = b.val
			brec[n] = M{"kind": b.kind, "raw": b.raw}
		}
		rec["bind"] = brec
		reads := []interface{}{}
		if len(regd) > 0 {
			ctxAuto := eval.NewCtxFromVars(cc, vals)
			rec["chosen"] = fmt.Sprintf("%T", ctxAuto.VariableFetcher)
			fetchers := []struct {
				name string
				f    eval.VariableFetcher
			}{{"auto", ctxAuto.VariableFetcher}, {"map", eval.NewMapVarFetcher(vals)},
				{"tovaluemap", eval.MapVarFetcher(eval.ToValueMap(vals))}}
			minK, maxK := 1<<20, -(1 << 20)
			for _, k := range cc.VariableKeyMap {
				if int(k) < minK {
					minK = int(k)
				}
				if int(k) > maxK {
					maxK = int(k)
				}
			}
			if minK >= 0 && maxK < 4096 && !undef {
				fetchers = append(fetchers, struct {
					name string
					f    eval.VariableFetcher
				}{"slice", eval.NewSliceVarFetcher(cc, vals)})
			}
			for _, mask := range []int{0, 4, 15} {
				// probe every variable in some operand position
				order := r.Perm(len(regd))
				k := len(regd)
				if mask == 4 && k > 2 {
					k = 2 // fast path: exactly two leaf operands
				}
				if k > 6 {
					k = 6
				}
				src := "(probe"
				var used []interface{}
				for _, ix := range order[:k] {
					src += " " + regd[ix]
					used = append(used, regd[ix])
				}
				src += ")"
				var seen []eval.Value
				cc2 := eval.CopyConfig(cc)
				cc2.OperatorMap["probe"] = func(_ *eval.Ctx, ps []eval.Value) (eval.Value, error) {
					seen = append([]eval.Value{}, ps...)
					return true, nil
				}
				for j, n := range optNames {
					cc2.CompileOptions[n] = mask&(1<<uint(j)) != 0
				}
				e, err := eval.Compile(cc2, src)
				if err != nil {
					reads = append(reads, M{"fetcher": "none", "mask": mask, "names": used, "out": "compile-error", "vals": []interface{}{}, "msg": err.Error()})
					continue
				}
				for _, f := range fetchers {
					seen = nil
					res := safely(func() M {
						v, err := e.Eval(&eval.Ctx{VariableFetcher: f.f})
						return outcome(v, err)
					})
					vs := []interface{}{}
					for _, v := range seen {
						vs = append(vs, tv(deepCopy(v)))
					}
					reads = append(reads, M{"fetcher": f.name, "mask": mask, "names": used, "out": res["t"], "vals": vs})
				}
			}
		} else {
			rec["chosen"] = "none"
		}
		if early != nil {
			// the early program, under contexts built after the history from the values of its own names only
			sub := map[string]interface{}{}
			var used []interface{}
			for _, n := range earlyNames {
				sub[n] = vals[n]
				used = append(used, n)
			}
			for _, f := range []struct {
				name string
				mk   func() eval.VariableFetcher
			}{{"auto-early", func() eval.VariableFetcher { return eval.NewCtxFromVars(cc, sub).VariableFetcher }},
				{"map-early", func() eval.VariableFetcher { return eval.NewMapVarFetcher(sub) }}} {
				earlySeen = nil
				res := safely(func() M {
					v, err := early.Eval(&eval.Ctx{VariableFetcher: f.mk()})
					return outcome(v, err)
				})
				vs := []interface{}{}
				for _, v := range earlySeen {
					vs = append(vs, tv(deepCopy(v)))
				}
				reads = append(reads, M{"fetcher": f.name, "mask": -1, "names": used, "out": res["t"], "vals": vs})
			}
		}
		rec["reads"] = reads
		emit(rec)
	}
}

func init() { families["reg"] = famReg }
