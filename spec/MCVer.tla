-------------------------------- MODULE MCVer --------------------------------
(***************************************************************************)
(* Property C19 at model level: for every pair of versions over boundary   *)
(* components and every valid length, comparing the encodings is comparing *)
(* the versions component-wise; what must be rejected is invalid; civil    *)
(* dates map to day numbers in chronological order.                        *)
(***************************************************************************)
EXTENDS Encodings, FiniteSets, TLC
CONSTANT Big
Comps == IF Big THEN {0, 1, 9, 10, 9998, 9999} ELSE {0, 10, 9999}
Bad == {10000, 12345, -1}
Versions(n) == UNION {[1..k -> Comps] : k \in 1..n}
VARIABLES a, b, n
vars == <<a, b, n>>
Init == n \in 1..4 /\ a \in Versions(n) /\ b = <<0>>
Next == b = <<0>> /\ b' \in Versions(n) /\ UNCHANGED <<a, n>>
Spec == Init /\ [][Next]_vars

OrderPreserving == Cmp64(VersionEnc64(a, n), VersionEnc64(b, n)) = LexCmp(Pad(a, n), Pad(b, n))
\* encodings of valid versions are non-negative and below 10000^n (no wrap-around)
NoWrap == ~IsNeg(VersionEnc64(a, n))
Rejects == /\ \A c \in Bad : \A i \in 1..Len(a) : ~VersionValid([a EXCEPT ![i] = c], n)
           /\ VersionValid(a, n) /\ ~VersionValid(a, 0) /\ ~VersionValid(a, 5)
\* dates: day numbers are strictly monotone in (y, m, d) on boundary dates, 1970-01-01 is day 0
Years == {1, 1900, 1969, 1970, 2000, 2024, 2038, 9999}
Dates == {<<y, m, d>> \in Years \X {1, 2, 3, 12} \X {1, 28, 29, 31} : DateValid(y, m, d)}
DateOrder == (n = 1 /\ a = <<0>> /\ b = <<0>>) =>
               /\ DaysFromCivil(1970, 1, 1) = 0 /\ DaysFromCivil(1969, 12, 31) = -1 /\ DaysFromCivil(2000, 3, 1) = 11017
               /\ DaysFromCivil(2038, 1, 19) = 24855 /\ DaysFromCivil(1, 1, 1) = -719162
               /\ \A p, q \in Dates : (LexCmp(p, q) = -1) <=> (DaysFromCivil(p[1], p[2], p[3]) < DaysFromCivil(q[1], q[2], q[3]))
               /\ UnixSecs(2038, 1, 19, 3, 14, 8) = <<0, 0, 0, 0, 128, 0, 0, 0>>
=============================================================================
