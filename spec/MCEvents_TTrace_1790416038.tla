---- MODULE MCEvents_TTrace_1790416038 ----
EXTENDS Sequences, TLCExt, Toolbox, MCEvents, Naturals, TLC

_expression ==
    LET MCEvents_TEExpression == INSTANCE MCEvents_TEExpression
    IN MCEvents_TEExpression!expression
----

_trace ==
    LET MCEvents_TETrace == INSTANCE MCEvents_TETrace
    IN MCEvents_TETrace!trace
----

_inv ==
    ~(
        TLCGet("level") = Len(_TETrace)
        /\
        s = ([st |-> "done", top |-> 1, hw |-> 1, pc |-> 6, res |-> [t |-> "e", v |-> "div0"], eff |-> <<[k |-> "get", n |-> "n"], [k |-> "get", n |-> "n"]>>, out |-> <<[k |-> "loop", pos |-> 2, stack |-> <<>>], [k |-> "op", n |-> ">", ps |-> <<[t |-> "i", v |-> 0], [t |-> "i", v |-> 0]>>, r |-> [t |-> "b", v |-> FALSE], fast |-> TRUE, alias |-> TRUE], [k |-> "loop", pos |-> 6, stack |-> <<[t |-> "b", v |-> FALSE]>>], [k |-> "op", n |-> "/", ps |-> <<[t |-> "i", v |-> 2], [t |-> "i", v |-> 0]>>, r |-> [t |-> "e", v |-> "div0"], fast |-> TRUE, alias |-> TRUE]>>, buf |-> <<[t |-> "i", v |-> 2], [t |-> "i", v |-> 0]>>, os |-> <<[t |-> "b", v |-> FALSE], [t |-> "nil", v |-> "nil"], [t |-> "nil", v |-> "nil"], [t |-> "nil", v |-> "nil"], [t |-> "nil", v |-> "nil"], [t |-> "nil", v |-> "nil"], [t |-> "nil", v |-> "nil"], [t |-> "nil", v |-> "nil"]>>, hc |-> 0])
        /\
        T = ([k |-> "o", kids |-> <<[k |-> "f", kids |-> <<[k |-> "v", kids |-> <<>>, v |-> "n"], [k |-> "c", kids |-> <<>>, v |-> [t |-> "i", v |-> 0]]>>, v |-> ">"], [k |-> "o", kids |-> <<[k |-> "f", kids |-> <<[k |-> "c", kids |-> <<>>, v |-> [t |-> "i", v |-> 2]], [k |-> "v", kids |-> <<>>, v |-> "n"]>>, v |-> "/"], [k |-> "c", kids |-> <<>>, v |-> [t |-> "i", v |-> 0]]>>, v |-> ">"]>>, v |-> "or"])
        /\
        L0 = ([max |-> 3, nodes |-> <<[top |-> 1, ty |-> "f", cc |-> 2, val |-> ">", scf |-> FALSE, sct |-> TRUE, sc |-> 0, pand |-> FALSE, por |-> TRUE, par |-> 9], [top |-> 1, ty |-> "v", cc |-> 0, val |-> "n", scf |-> FALSE, sct |-> FALSE, sc |-> 2, pand |-> FALSE, por |-> FALSE, par |-> 1], [top |-> 1, ty |-> "c", cc |-> 0, val |-> [t |-> "i", v |-> 0], scf |-> FALSE, sct |-> FALSE, sc |-> 3, pand |-> FALSE, por |-> FALSE, par |-> 1], [top |-> 2, ty |-> "f", cc |-> 2, val |-> "/", scf |-> FALSE, sct |-> FALSE, sc |-> 4, pand |-> FALSE, por |-> FALSE, par |-> 8], [top |-> 2, ty |-> "c", cc |-> 0, val |-> [t |-> "i", v |-> 2], scf |-> FALSE, sct |-> FALSE, sc |-> 5, pand |-> FALSE, por |-> FALSE, par |-> 4], [top |-> 2, ty |-> "v", cc |-> 0, val |-> "n", scf |-> FALSE, sct |-> FALSE, sc |-> 6, pand |-> FALSE, por |-> FALSE, par |-> 4], [top |-> 3, ty |-> "c", cc |-> 0, val |-> [t |-> "i", v |-> 0], scf |-> FALSE, sct |-> FALSE, sc |-> 7, pand |-> FALSE, por |-> FALSE, par |-> 8], [top |-> 2, ty |-> "o", cc |-> 2, val |-> ">", scf |-> TRUE, sct |-> TRUE, sc |-> 0, pand |-> FALSE, por |-> TRUE, par |-> 9], [top |-> 1, ty |-> "o", cc |-> 2, val |-> "or", scf |-> FALSE, sct |-> FALSE, sc |-> 0, pand |-> FALSE, por |-> FALSE, par |-> 0]>>])
        /\
        av = ({})
        /\
        tree = ([k |-> "o", kids |-> <<[k |-> "o", kids |-> <<[k |-> "o", kids |-> <<[k |-> "c", kids |-> <<>>, v |-> [t |-> "i", v |-> 2]], [k |-> "v", kids |-> <<>>, v |-> "n"]>>, v |-> "/"], [k |-> "c", kids |-> <<>>, v |-> [t |-> "i", v |-> 0]]>>, v |-> ">"], [k |-> "o", kids |-> <<[k |-> "v", kids |-> <<>>, v |-> "n"], [k |-> "c", kids |-> <<>>, v |-> [t |-> "i", v |-> 0]]>>, v |-> ">"]>>, v |-> "or"])
        /\
        try = (FALSE)
        /\
        L = ([max |-> 3, nodes |-> <<[top |-> 1, ty |-> "ev", cc |-> 2, val |-> 2, scf |-> FALSE, sct |-> FALSE, sc |-> 0, pand |-> FALSE, por |-> FALSE, par |-> 13], [top |-> 1, ty |-> "f", cc |-> 2, val |-> ">", scf |-> FALSE, sct |-> TRUE, sc |-> 0, pand |-> FALSE, por |-> TRUE, par |-> 14], [top |-> 1, ty |-> "v", cc |-> 0, val |-> "n", scf |-> FALSE, sct |-> FALSE, sc |-> 3, pand |-> FALSE, por |-> FALSE, par |-> 2], [top |-> 1, ty |-> "c", cc |-> 0, val |-> [t |-> "i", v |-> 0], scf |-> FALSE, sct |-> FALSE, sc |-> 4, pand |-> FALSE, por |-> FALSE, par |-> 2], [top |-> 2, ty |-> "ev", cc |-> 2, val |-> 6, scf |-> FALSE, sct |-> FALSE, sc |-> 6, pand |-> FALSE, por |-> FALSE, par |-> 11], [top |-> 2, ty |-> "f", cc |-> 2, val |-> "/", scf |-> FALSE, sct |-> FALSE, sc |-> 6, pand |-> FALSE, por |-> FALSE, par |-> 12], [top |-> 2, ty |-> "c", cc |-> 0, val |-> [t |-> "i", v |-> 2], scf |-> FALSE, sct |-> FALSE, sc |-> 7, pand |-> FALSE, por |-> FALSE, par |-> 6], [top |-> 2, ty |-> "v", cc |-> 0, val |-> "n", scf |-> FALSE, sct |-> FALSE, sc |-> 8, pand |-> FALSE, por |-> FALSE, par |-> 6], [top |-> 3, ty |-> "ev", cc |-> 0, val |-> 10, scf |-> FALSE, sct |-> FALSE, sc |-> 10, pand |-> FALSE, por |-> FALSE, par |-> 11], [top |-> 3, ty |-> "c", cc |-> 0, val |-> [t |-> "i", v |-> 0], scf |-> FALSE, sct |-> FALSE, sc |-> 10, pand |-> FALSE, por |-> FALSE, par |-> 12], [top |-> 2, ty |-> "ev", cc |-> 2, val |-> 12, scf |-> FALSE, sct |-> FALSE, sc |-> 0, pand |-> FALSE, por |-> FALSE, par |-> 13], [top |-> 2, ty |-> "o", cc |-> 2, val |-> ">", scf |-> TRUE, sct |-> TRUE, sc |-> 0, pand |-> FALSE, por |-> TRUE, par |-> 14], [top |-> 1, ty |-> "ev", cc |-> 2, val |-> 14, scf |-> FALSE, sct |-> FALSE, sc |-> 0, pand |-> FALSE, por |-> FALSE, par |-> 0], [top |-> 1, ty |-> "o", cc |-> 2, val |-> "or", scf |-> FALSE, sct |-> FALSE, sc |-> 0, pand |-> FALSE, por |-> FALSE, par |-> 0]>>])
        /\
        env = ([x |-> [t |-> "b", v |-> FALSE], y |-> [t |-> "b", v |-> FALSE], n |-> [t |-> "i", v |-> 0]])
        /\
        mask = ([cf |-> TRUE, rn |-> TRUE, fe |-> TRUE, ro |-> TRUE])
    )
----

_init ==
    /\ av = _TETrace[1].av
    /\ L = _TETrace[1].L
    /\ try = _TETrace[1].try
    /\ T = _TETrace[1].T
    /\ L0 = _TETrace[1].L0
    /\ env = _TETrace[1].env
    /\ s = _TETrace[1].s
    /\ tree = _TETrace[1].tree
    /\ mask = _TETrace[1].mask
----

_next ==
    /\ \E i,j \in DOMAIN _TETrace:
        /\ \/ /\ j = i + 1
              /\ i = TLCGet("level")
        /\ av  = _TETrace[i].av
        /\ av' = _TETrace[j].av
        /\ L  = _TETrace[i].L
        /\ L' = _TETrace[j].L
        /\ try  = _TETrace[i].try
        /\ try' = _TETrace[j].try
        /\ T  = _TETrace[i].T
        /\ T' = _TETrace[j].T
        /\ L0  = _TETrace[i].L0
        /\ L0' = _TETrace[j].L0
        /\ env  = _TETrace[i].env
        /\ env' = _TETrace[j].env
        /\ s  = _TETrace[i].s
        /\ s' = _TETrace[j].s
        /\ tree  = _TETrace[i].tree
        /\ tree' = _TETrace[j].tree
        /\ mask  = _TETrace[i].mask
        /\ mask' = _TETrace[j].mask

\* Uncomment the ASSUME below to write the states of the error trace
\* to the given file in Json format. Note that you can pass any tuple
\* to `JsonSerialize`. For example, a sub-sequence of _TETrace.
    \* ASSUME
    \*     LET J == INSTANCE Json
    \*         IN J!JsonSerialize("MCEvents_TTrace_1790416038.json", _TETrace)

=============================================================================

 Note that you can extract this module `MCEvents_TEExpression`
  to a dedicated file to reuse `expression` (the module in the 
  dedicated `MCEvents_TEExpression.tla` file takes precedence 
  over the module `MCEvents_TEExpression` below).

---- MODULE MCEvents_TEExpression ----
EXTENDS Sequences, TLCExt, Toolbox, MCEvents, Naturals, TLC

expression == 
    [
        \* To hide variables of the `MCEvents` spec from the error trace,
        \* remove the variables below.  The trace will be written in the order
        \* of the fields of this record.
        av |-> av
        ,L |-> L
        ,try |-> try
        ,T |-> T
        ,L0 |-> L0
        ,env |-> env
        ,s |-> s
        ,tree |-> tree
        ,mask |-> mask
        
        \* Put additional constant-, state-, and action-level expressions here:
        \* ,_stateNumber |-> _TEPosition
        \* ,_avUnchanged |-> av = av'
        
        \* Format the `av` variable as Json value.
        \* ,_avJson |->
        \*     LET J == INSTANCE Json
        \*     IN J!ToJson(av)
        
        \* Lastly, you may build expressions over arbitrary sets of states by
        \* leveraging the _TETrace operator.  For example, this is how to
        \* count the number of times a spec variable changed up to the current
        \* state in the trace.
        \* ,_avModCount |->
        \*     LET F[s \in DOMAIN _TETrace] ==
        \*         IF s = 1 THEN 0
        \*         ELSE IF _TETrace[s].av # _TETrace[s-1].av
        \*             THEN 1 + F[s-1] ELSE F[s-1]
        \*     IN F[_TEPosition - 1]
    ]

=============================================================================



Parsing and semantic processing can take forever if the trace below is long.
 In this case, it is advised to uncomment the module below to deserialize the
 trace from a generated binary file.

\*
\*---- MODULE MCEvents_TETrace ----
\*EXTENDS IOUtils, MCEvents, TLC
\*
\*trace == IODeserialize("MCEvents_TTrace_1790416038.bin", TRUE)
\*
\*=============================================================================
\*

---- MODULE MCEvents_TETrace ----
EXTENDS MCEvents, TLC

trace == 
    <<
    ([s |-> [st |-> "cfg"],T |-> [k |-> "o", kids |-> <<[k |-> "o", kids |-> <<[k |-> "o", kids |-> <<[k |-> "c", kids |-> <<>>, v |-> [t |-> "i", v |-> 2]], [k |-> "v", kids |-> <<>>, v |-> "n"]>>, v |-> "/"], [k |-> "c", kids |-> <<>>, v |-> [t |-> "i", v |-> 0]]>>, v |-> ">"], [k |-> "o", kids |-> <<[k |-> "v", kids |-> <<>>, v |-> "n"], [k |-> "c", kids |-> <<>>, v |-> [t |-> "i", v |-> 0]]>>, v |-> ">"]>>, v |-> "or"],L0 |-> <<>>,av |-> {},tree |-> [k |-> "o", kids |-> <<[k |-> "o", kids |-> <<[k |-> "o", kids |-> <<[k |-> "c", kids |-> <<>>, v |-> [t |-> "i", v |-> 2]], [k |-> "v", kids |-> <<>>, v |-> "n"]>>, v |-> "/"], [k |-> "c", kids |-> <<>>, v |-> [t |-> "i", v |-> 0]]>>, v |-> ">"], [k |-> "o", kids |-> <<[k |-> "v", kids |-> <<>>, v |-> "n"], [k |-> "c", kids |-> <<>>, v |-> [t |-> "i", v |-> 0]]>>, v |-> ">"]>>, v |-> "or"],try |-> FALSE,L |-> <<>>,env |-> [x |-> [t |-> "b", v |-> TRUE], y |-> [t |-> "b", v |-> TRUE], n |-> [t |-> "i", v |-> 0]],mask |-> [cf |-> FALSE, rn |-> FALSE, fe |-> FALSE, ro |-> FALSE]]),
    ([s |-> [st |-> "run", top |-> 0, hw |-> 0, pc |-> 1, res |-> [t |-> "nil", v |-> "nil"], eff |-> <<>>, out |-> <<>>, buf |-> <<[t |-> "nil", v |-> "nil"], [t |-> "nil", v |-> "nil"]>>, os |-> <<[t |-> "nil", v |-> "nil"], [t |-> "nil", v |-> "nil"], [t |-> "nil", v |-> "nil"], [t |-> "nil", v |-> "nil"], [t |-> "nil", v |-> "nil"], [t |-> "nil", v |-> "nil"], [t |-> "nil", v |-> "nil"], [t |-> "nil", v |-> "nil"]>>, hc |-> 0],T |-> [k |-> "o", kids |-> <<[k |-> "f", kids |-> <<[k |-> "v", kids |-> <<>>, v |-> "n"], [k |-> "c", kids |-> <<>>, v |-> [t |-> "i", v |-> 0]]>>, v |-> ">"], [k |-> "o", kids |-> <<[k |-> "f", kids |-> <<[k |-> "c", kids |-> <<>>, v |-> [t |-> "i", v |-> 2]], [k |-> "v", kids |-> <<>>, v |-> "n"]>>, v |-> "/"], [k |-> "c", kids |-> <<>>, v |-> [t |-> "i", v |-> 0]]>>, v |-> ">"]>>, v |-> "or"],L0 |-> [max |-> 3, nodes |-> <<[top |-> 1, ty |-> "f", cc |-> 2, val |-> ">", scf |-> FALSE, sct |-> TRUE, sc |-> 0, pand |-> FALSE, por |-> TRUE, par |-> 9], [top |-> 1, ty |-> "v", cc |-> 0, val |-> "n", scf |-> FALSE, sct |-> FALSE, sc |-> 2, pand |-> FALSE, por |-> FALSE, par |-> 1], [top |-> 1, ty |-> "c", cc |-> 0, val |-> [t |-> "i", v |-> 0], scf |-> FALSE, sct |-> FALSE, sc |-> 3, pand |-> FALSE, por |-> FALSE, par |-> 1], [top |-> 2, ty |-> "f", cc |-> 2, val |-> "/", scf |-> FALSE, sct |-> FALSE, sc |-> 4, pand |-> FALSE, por |-> FALSE, par |-> 8], [top |-> 2, ty |-> "c", cc |-> 0, val |-> [t |-> "i", v |-> 2], scf |-> FALSE, sct |-> FALSE, sc |-> 5, pand |-> FALSE, por |-> FALSE, par |-> 4], [top |-> 2, ty |-> "v", cc |-> 0, val |-> "n", scf |-> FALSE, sct |-> FALSE, sc |-> 6, pand |-> FALSE, por |-> FALSE, par |-> 4], [top |-> 3, ty |-> "c", cc |-> 0, val |-> [t |-> "i", v |-> 0], scf |-> FALSE, sct |-> FALSE, sc |-> 7, pand |-> FALSE, por |-> FALSE, par |-> 8], [top |-> 2, ty |-> "o", cc |-> 2, val |-> ">", scf |-> TRUE, sct |-> TRUE, sc |-> 0, pand |-> FALSE, por |-> TRUE, par |-> 9], [top |-> 1, ty |-> "o", cc |-> 2, val |-> "or", scf |-> FALSE, sct |-> FALSE, sc |-> 0, pand |-> FALSE, por |-> FALSE, par |-> 0]>>],av |-> {},tree |-> [k |-> "o", kids |-> <<[k |-> "o", kids |-> <<[k |-> "o", kids |-> <<[k |-> "c", kids |-> <<>>, v |-> [t |-> "i", v |-> 2]], [k |-> "v", kids |-> <<>>, v |-> "n"]>>, v |-> "/"], [k |-> "c", kids |-> <<>>, v |-> [t |-> "i", v |-> 0]]>>, v |-> ">"], [k |-> "o", kids |-> <<[k |-> "v", kids |-> <<>>, v |-> "n"], [k |-> "c", kids |-> <<>>, v |-> [t |-> "i", v |-> 0]]>>, v |-> ">"]>>, v |-> "or"],try |-> FALSE,L |-> [max |-> 3, nodes |-> <<[top |-> 1, ty |-> "ev", cc |-> 2, val |-> 2, scf |-> FALSE, sct |-> FALSE, sc |-> 0, pand |-> FALSE, por |-> FALSE, par |-> 13], [top |-> 1, ty |-> "f", cc |-> 2, val |-> ">", scf |-> FALSE, sct |-> TRUE, sc |-> 0, pand |-> FALSE, por |-> TRUE, par |-> 14], [top |-> 1, ty |-> "v", cc |-> 0, val |-> "n", scf |-> FALSE, sct |-> FALSE, sc |-> 3, pand |-> FALSE, por |-> FALSE, par |-> 2], [top |-> 1, ty |-> "c", cc |-> 0, val |-> [t |-> "i", v |-> 0], scf |-> FALSE, sct |-> FALSE, sc |-> 4, pand |-> FALSE, por |-> FALSE, par |-> 2], [top |-> 2, ty |-> "ev", cc |-> 2, val |-> 6, scf |-> FALSE, sct |-> FALSE, sc |-> 6, pand |-> FALSE, por |-> FALSE, par |-> 11], [top |-> 2, ty |-> "f", cc |-> 2, val |-> "/", scf |-> FALSE, sct |-> FALSE, sc |-> 6, pand |-> FALSE, por |-> FALSE, par |-> 12], [top |-> 2, ty |-> "c", cc |-> 0, val |-> [t |-> "i", v |-> 2], scf |-> FALSE, sct |-> FALSE, sc |-> 7, pand |-> FALSE, por |-> FALSE, par |-> 6], [top |-> 2, ty |-> "v", cc |-> 0, val |-> "n", scf |-> FALSE, sct |-> FALSE, sc |-> 8, pand |-> FALSE, por |-> FALSE, par |-> 6], [top |-> 3, ty |-> "ev", cc |-> 0, val |-> 10, scf |-> FALSE, sct |-> FALSE, sc |-> 10, pand |-> FALSE, por |-> FALSE, par |-> 11], [top |-> 3, ty |-> "c", cc |-> 0, val |-> [t |-> "i", v |-> 0], scf |-> FALSE, sct |-> FALSE, sc |-> 10, pand |-> FALSE, por |-> FALSE, par |-> 12], [top |-> 2, ty |-> "ev", cc |-> 2, val |-> 12, scf |-> FALSE, sct |-> FALSE, sc |-> 0, pand |-> FALSE, por |-> FALSE, par |-> 13], [top |-> 2, ty |-> "o", cc |-> 2, val |-> ">", scf |-> TRUE, sct |-> TRUE, sc |-> 0, pand |-> FALSE, por |-> TRUE, par |-> 14], [top |-> 1, ty |-> "ev", cc |-> 2, val |-> 14, scf |-> FALSE, sct |-> FALSE, sc |-> 0, pand |-> FALSE, por |-> FALSE, par |-> 0], [top |-> 1, ty |-> "o", cc |-> 2, val |-> "or", scf |-> FALSE, sct |-> FALSE, sc |-> 0, pand |-> FALSE, por |-> FALSE, par |-> 0]>>],env |-> [x |-> [t |-> "b", v |-> FALSE], y |-> [t |-> "b", v |-> FALSE], n |-> [t |-> "i", v |-> 0]],mask |-> [cf |-> TRUE, rn |-> TRUE, fe |-> TRUE, ro |-> TRUE]]),
    ([s |-> [st |-> "run", top |-> 0, hw |-> 0, pc |-> 2, res |-> [t |-> "nil", v |-> "nil"], eff |-> <<>>, out |-> <<[k |-> "loop", pos |-> 2, stack |-> <<>>]>>, buf |-> <<[t |-> "nil", v |-> "nil"], [t |-> "nil", v |-> "nil"]>>, os |-> <<[t |-> "nil", v |-> "nil"], [t |-> "nil", v |-> "nil"], [t |-> "nil", v |-> "nil"], [t |-> "nil", v |-> "nil"], [t |-> "nil", v |-> "nil"], [t |-> "nil", v |-> "nil"], [t |-> "nil", v |-> "nil"], [t |-> "nil", v |-> "nil"]>>, hc |-> 0],T |-> [k |-> "o", kids |-> <<[k |-> "f", kids |-> <<[k |-> "v", kids |-> <<>>, v |-> "n"], [k |-> "c", kids |-> <<>>, v |-> [t |-> "i", v |-> 0]]>>, v |-> ">"], [k |-> "o", kids |-> <<[k |-> "f", kids |-> <<[k |-> "c", kids |-> <<>>, v |-> [t |-> "i", v |-> 2]], [k |-> "v", kids |-> <<>>, v |-> "n"]>>, v |-> "/"], [k |-> "c", kids |-> <<>>, v |-> [t |-> "i", v |-> 0]]>>, v |-> ">"]>>, v |-> "or"],L0 |-> [max |-> 3, nodes |-> <<[top |-> 1, ty |-> "f", cc |-> 2, val |-> ">", scf |-> FALSE, sct |-> TRUE, sc |-> 0, pand |-> FALSE, por |-> TRUE, par |-> 9], [top |-> 1, ty |-> "v", cc |-> 0, val |-> "n", scf |-> FALSE, sct |-> FALSE, sc |-> 2, pand |-> FALSE, por |-> FALSE, par |-> 1], [top |-> 1, ty |-> "c", cc |-> 0, val |-> [t |-> "i", v |-> 0], scf |-> FALSE, sct |-> FALSE, sc |-> 3, pand |-> FALSE, por |-> FALSE, par |-> 1], [top |-> 2, ty |-> "f", cc |-> 2, val |-> "/", scf |-> FALSE, sct |-> FALSE, sc |-> 4, pand |-> FALSE, por |-> FALSE, par |-> 8], [top |-> 2, ty |-> "c", cc |-> 0, val |-> [t |-> "i", v |-> 2], scf |-> FALSE, sct |-> FALSE, sc |-> 5, pand |-> FALSE, por |-> FALSE, par |-> 4], [top |-> 2, ty |-> "v", cc |-> 0, val |-> "n", scf |-> FALSE, sct |-> FALSE, sc |-> 6, pand |-> FALSE, por |-> FALSE, par |-> 4], [top |-> 3, ty |-> "c", cc |-> 0, val |-> [t |-> "i", v |-> 0], scf |-> FALSE, sct |-> FALSE, sc |-> 7, pand |-> FALSE, por |-> FALSE, par |-> 8], [top |-> 2, ty |-> "o", cc |-> 2, val |-> ">", scf |-> TRUE, sct |-> TRUE, sc |-> 0, pand |-> FALSE, por |-> TRUE, par |-> 9], [top |-> 1, ty |-> "o", cc |-> 2, val |-> "or", scf |-> FALSE, sct |-> FALSE, sc |-> 0, pand |-> FALSE, por |-> FALSE, par |-> 0]>>],av |-> {},tree |-> [k |-> "o", kids |-> <<[k |-> "o", kids |-> <<[k |-> "o", kids |-> <<[k |-> "c", kids |-> <<>>, v |-> [t |-> "i", v |-> 2]], [k |-> "v", kids |-> <<>>, v |-> "n"]>>, v |-> "/"], [k |-> "c", kids |-> <<>>, v |-> [t |-> "i", v |-> 0]]>>, v |-> ">"], [k |-> "o", kids |-> <<[k |-> "v", kids |-> <<>>, v |-> "n"], [k |-> "c", kids |-> <<>>, v |-> [t |-> "i", v |-> 0]]>>, v |-> ">"]>>, v |-> "or"],try |-> FALSE,L |-> [max |-> 3, nodes |-> <<[top |-> 1, ty |-> "ev", cc |-> 2, val |-> 2, scf |-> FALSE, sct |-> FALSE, sc |-> 0, pand |-> FALSE, por |-> FALSE, par |-> 13], [top |-> 1, ty |-> "f", cc |-> 2, val |-> ">", scf |-> FALSE, sct |-> TRUE, sc |-> 0, pand |-> FALSE, por |-> TRUE, par |-> 14], [top |-> 1, ty |-> "v", cc |-> 0, val |-> "n", scf |-> FALSE, sct |-> FALSE, sc |-> 3, pand |-> FALSE, por |-> FALSE, par |-> 2], [top |-> 1, ty |-> "c", cc |-> 0, val |-> [t |-> "i", v |-> 0], scf |-> FALSE, sct |-> FALSE, sc |-> 4, pand |-> FALSE, por |-> FALSE, par |-> 2], [top |-> 2, ty |-> "ev", cc |-> 2, val |-> 6, scf |-> FALSE, sct |-> FALSE, sc |-> 6, pand |-> FALSE, por |-> FALSE, par |-> 11], [top |-> 2, ty |-> "f", cc |-> 2, val |-> "/", scf |-> FALSE, sct |-> FALSE, sc |-> 6, pand |-> FALSE, por |-> FALSE, par |-> 12], [top |-> 2, ty |-> "c", cc |-> 0, val |-> [t |-> "i", v |-> 2], scf |-> FALSE, sct |-> FALSE, sc |-> 7, pand |-> FALSE, por |-> FALSE, par |-> 6], [top |-> 2, ty |-> "v", cc |-> 0, val |-> "n", scf |-> FALSE, sct |-> FALSE, sc |-> 8, pand |-> FALSE, por |-> FALSE, par |-> 6], [top |-> 3, ty |-> "ev", cc |-> 0, val |-> 10, scf |-> FALSE, sct |-> FALSE, sc |-> 10, pand |-> FALSE, por |-> FALSE, par |-> 11], [top |-> 3, ty |-> "c", cc |-> 0, val |-> [t |-> "i", v |-> 0], scf |-> FALSE, sct |-> FALSE, sc |-> 10, pand |-> FALSE, por |-> FALSE, par |-> 12], [top |-> 2, ty |-> "ev", cc |-> 2, val |-> 12, scf |-> FALSE, sct |-> FALSE, sc |-> 0, pand |-> FALSE, por |-> FALSE, par |-> 13], [top |-> 2, ty |-> "o", cc |-> 2, val |-> ">", scf |-> TRUE, sct |-> TRUE, sc |-> 0, pand |-> FALSE, por |-> TRUE, par |-> 14], [top |-> 1, ty |-> "ev", cc |-> 2, val |-> 14, scf |-> FALSE, sct |-> FALSE, sc |-> 0, pand |-> FALSE, por |-> FALSE, par |-> 0], [top |-> 1, ty |-> "o", cc |-> 2, val |-> "or", scf |-> FALSE, sct |-> FALSE, sc |-> 0, pand |-> FALSE, por |-> FALSE, par |-> 0]>>],env |-> [x |-> [t |-> "b", v |-> FALSE], y |-> [t |-> "b", v |-> FALSE], n |-> [t |-> "i", v |-> 0]],mask |-> [cf |-> TRUE, rn |-> TRUE, fe |-> TRUE, ro |-> TRUE]]),
    ([s |-> [st |-> "run", top |-> 1, hw |-> 1, pc |-> 5, res |-> [t |-> "b", v |-> FALSE], eff |-> <<[k |-> "get", n |-> "n"]>>, out |-> <<[k |-> "loop", pos |-> 2, stack |-> <<>>], [k |-> "op", n |-> ">", ps |-> <<[t |-> "i", v |-> 0], [t |-> "i", v |-> 0]>>, r |-> [t |-> "b", v |-> FALSE], fast |-> TRUE, alias |-> TRUE]>>, buf |-> <<[t |-> "i", v |-> 0], [t |-> "i", v |-> 0]>>, os |-> <<[t |-> "b", v |-> FALSE], [t |-> "nil", v |-> "nil"], [t |-> "nil", v |-> "nil"], [t |-> "nil", v |-> "nil"], [t |-> "nil", v |-> "nil"], [t |-> "nil", v |-> "nil"], [t |-> "nil", v |-> "nil"], [t |-> "nil", v |-> "nil"]>>, hc |-> 0],T |-> [k |-> "o", kids |-> <<[k |-> "f", kids |-> <<[k |-> "v", kids |-> <<>>, v |-> "n"], [k |-> "c", kids |-> <<>>, v |-> [t |-> "i", v |-> 0]]>>, v |-> ">"], [k |-> "o", kids |-> <<[k |-> "f", kids |-> <<[k |-> "c", kids |-> <<>>, v |-> [t |-> "i", v |-> 2]], [k |-> "v", kids |-> <<>>, v |-> "n"]>>, v |-> "/"], [k |-> "c", kids |-> <<>>, v |-> [t |-> "i", v |-> 0]]>>, v |-> ">"]>>, v |-> "or"],L0 |-> [max |-> 3, nodes |-> <<[top |-> 1, ty |-> "f", cc |-> 2, val |-> ">", scf |-> FALSE, sct |-> TRUE, sc |-> 0, pand |-> FALSE, por |-> TRUE, par |-> 9], [top |-> 1, ty |-> "v", cc |-> 0, val |-> "n", scf |-> FALSE, sct |-> FALSE, sc |-> 2, pand |-> FALSE, por |-> FALSE, par |-> 1], [top |-> 1, ty |-> "c", cc |-> 0, val |-> [t |-> "i", v |-> 0], scf |-> FALSE, sct |-> FALSE, sc |-> 3, pand |-> FALSE, por |-> FALSE, par |-> 1], [top |-> 2, ty |-> "f", cc |-> 2, val |-> "/", scf |-> FALSE, sct |-> FALSE, sc |-> 4, pand |-> FALSE, por |-> FALSE, par |-> 8], [top |-> 2, ty |-> "c", cc |-> 0, val |-> [t |-> "i", v |-> 2], scf |-> FALSE, sct |-> FALSE, sc |-> 5, pand |-> FALSE, por |-> FALSE, par |-> 4], [top |-> 2, ty |-> "v", cc |-> 0, val |-> "n", scf |-> FALSE, sct |-> FALSE, sc |-> 6, pand |-> FALSE, por |-> FALSE, par |-> 4], [top |-> 3, ty |-> "c", cc |-> 0, val |-> [t |-> "i", v |-> 0], scf |-> FALSE, sct |-> FALSE, sc |-> 7, pand |-> FALSE, por |-> FALSE, par |-> 8], [top |-> 2, ty |-> "o", cc |-> 2, val |-> ">", scf |-> TRUE, sct |-> TRUE, sc |-> 0, pand |-> FALSE, por |-> TRUE, par |-> 9], [top |-> 1, ty |-> "o", cc |-> 2, val |-> "or", scf |-> FALSE, sct |-> FALSE, sc |-> 0, pand |-> FALSE, por |-> FALSE, par |-> 0]>>],av |-> {},tree |-> [k |-> "o", kids |-> <<[k |-> "o", kids |-> <<[k |-> "o", kids |-> <<[k |-> "c", kids |-> <<>>, v |-> [t |-> "i", v |-> 2]], [k |-> "v", kids |-> <<>>, v |-> "n"]>>, v |-> "/"], [k |-> "c", kids |-> <<>>, v |-> [t |-> "i", v |-> 0]]>>, v |-> ">"], [k |-> "o", kids |-> <<[k |-> "v", kids |-> <<>>, v |-> "n"], [k |-> "c", kids |-> <<>>, v |-> [t |-> "i", v |-> 0]]>>, v |-> ">"]>>, v |-> "or"],try |-> FALSE,L |-> [max |-> 3, nodes |-> <<[top |-> 1, ty |-> "ev", cc |-> 2, val |-> 2, scf |-> FALSE, sct |-> FALSE, sc |-> 0, pand |-> FALSE, por |-> FALSE, par |-> 13], [top |-> 1, ty |-> "f", cc |-> 2, val |-> ">", scf |-> FALSE, sct |-> TRUE, sc |-> 0, pand |-> FALSE, por |-> TRUE, par |-> 14], [top |-> 1, ty |-> "v", cc |-> 0, val |-> "n", scf |-> FALSE, sct |-> FALSE, sc |-> 3, pand |-> FALSE, por |-> FALSE, par |-> 2], [top |-> 1, ty |-> "c", cc |-> 0, val |-> [t |-> "i", v |-> 0], scf |-> FALSE, sct |-> FALSE, sc |-> 4, pand |-> FALSE, por |-> FALSE, par |-> 2], [top |-> 2, ty |-> "ev", cc |-> 2, val |-> 6, scf |-> FALSE, sct |-> FALSE, sc |-> 6, pand |-> FALSE, por |-> FALSE, par |-> 11], [top |-> 2, ty |-> "f", cc |-> 2, val |-> "/", scf |-> FALSE, sct |-> FALSE, sc |-> 6, pand |-> FALSE, por |-> FALSE, par |-> 12], [top |-> 2, ty |-> "c", cc |-> 0, val |-> [t |-> "i", v |-> 2], scf |-> FALSE, sct |-> FALSE, sc |-> 7, pand |-> FALSE, por |-> FALSE, par |-> 6], [top |-> 2, ty |-> "v", cc |-> 0, val |-> "n", scf |-> FALSE, sct |-> FALSE, sc |-> 8, pand |-> FALSE, por |-> FALSE, par |-> 6], [top |-> 3, ty |-> "ev", cc |-> 0, val |-> 10, scf |-> FALSE, sct |-> FALSE, sc |-> 10, pand |-> FALSE, por |-> FALSE, par |-> 11], [top |-> 3, ty |-> "c", cc |-> 0, val |-> [t |-> "i", v |-> 0], scf |-> FALSE, sct |-> FALSE, sc |-> 10, pand |-> FALSE, por |-> FALSE, par |-> 12], [top |-> 2, ty |-> "ev", cc |-> 2, val |-> 12, scf |-> FALSE, sct |-> FALSE, sc |-> 0, pand |-> FALSE, por |-> FALSE, par |-> 13], [top |-> 2, ty |-> "o", cc |-> 2, val |-> ">", scf |-> TRUE, sct |-> TRUE, sc |-> 0, pand |-> FALSE, por |-> TRUE, par |-> 14], [top |-> 1, ty |-> "ev", cc |-> 2, val |-> 14, scf |-> FALSE, sct |-> FALSE, sc |-> 0, pand |-> FALSE, por |-> FALSE, par |-> 0], [top |-> 1, ty |-> "o", cc |-> 2, val |-> "or", scf |-> FALSE, sct |-> FALSE, sc |-> 0, pand |-> FALSE, por |-> FALSE, par |-> 0]>>],env |-> [x |-> [t |-> "b", v |-> FALSE], y |-> [t |-> "b", v |-> FALSE], n |-> [t |-> "i", v |-> 0]],mask |-> [cf |-> TRUE, rn |-> TRUE, fe |-> TRUE, ro |-> TRUE]]),
    ([s |-> [st |-> "run", top |-> 1, hw |-> 1, pc |-> 6, res |-> [t |-> "b", v |-> FALSE], eff |-> <<[k |-> "get", n |-> "n"]>>, out |-> <<[k |-> "loop", pos |-> 2, stack |-> <<>>], [k |-> "op", n |-> ">", ps |-> <<[t |-> "i", v |-> 0], [t |-> "i", v |-> 0]>>, r |-> [t |-> "b", v |-> FALSE], fast |-> TRUE, alias |-> TRUE], [k |-> "loop", pos |-> 6, stack |-> <<[t |-> "b", v |-> FALSE]>>]>>, buf |-> <<[t |-> "i", v |-> 0], [t |-> "i", v |-> 0]>>, os |-> <<[t |-> "b", v |-> FALSE], [t |-> "nil", v |-> "nil"], [t |-> "nil", v |-> "nil"], [t |-> "nil", v |-> "nil"], [t |-> "nil", v |-> "nil"], [t |-> "nil", v |-> "nil"], [t |-> "nil", v |-> "nil"], [t |-> "nil", v |-> "nil"]>>, hc |-> 0],T |-> [k |-> "o", kids |-> <<[k |-> "f", kids |-> <<[k |-> "v", kids |-> <<>>, v |-> "n"], [k |-> "c", kids |-> <<>>, v |-> [t |-> "i", v |-> 0]]>>, v |-> ">"], [k |-> "o", kids |-> <<[k |-> "f", kids |-> <<[k |-> "c", kids |-> <<>>, v |-> [t |-> "i", v |-> 2]], [k |-> "v", kids |-> <<>>, v |-> "n"]>>, v |-> "/"], [k |-> "c", kids |-> <<>>, v |-> [t |-> "i", v |-> 0]]>>, v |-> ">"]>>, v |-> "or"],L0 |-> [max |-> 3, nodes |-> <<[top |-> 1, ty |-> "f", cc |-> 2, val |-> ">", scf |-> FALSE, sct |-> TRUE, sc |-> 0, pand |-> FALSE, por |-> TRUE, par |-> 9], [top |-> 1, ty |-> "v", cc |-> 0, val |-> "n", scf |-> FALSE, sct |-> FALSE, sc |-> 2, pand |-> FALSE, por |-> FALSE, par |-> 1], [top |-> 1, ty |-> "c", cc |-> 0, val |-> [t |-> "i", v |-> 0], scf |-> FALSE, sct |-> FALSE, sc |-> 3, pand |-> FALSE, por |-> FALSE, par |-> 1], [top |-> 2, ty |-> "f", cc |-> 2, val |-> "/", scf |-> FALSE, sct |-> FALSE, sc |-> 4, pand |-> FALSE, por |-> FALSE, par |-> 8], [top |-> 2, ty |-> "c", cc |-> 0, val |-> [t |-> "i", v |-> 2], scf |-> FALSE, sct |-> FALSE, sc |-> 5, pand |-> FALSE, por |-> FALSE, par |-> 4], [top |-> 2, ty |-> "v", cc |-> 0, val |-> "n", scf |-> FALSE, sct |-> FALSE, sc |-> 6, pand |-> FALSE, por |-> FALSE, par |-> 4], [top |-> 3, ty |-> "c", cc |-> 0, val |-> [t |-> "i", v |-> 0], scf |-> FALSE, sct |-> FALSE, sc |-> 7, pand |-> FALSE, por |-> FALSE, par |-> 8], [top |-> 2, ty |-> "o", cc |-> 2, val |-> ">", scf |-> TRUE, sct |-> TRUE, sc |-> 0, pand |-> FALSE, por |-> TRUE, par |-> 9], [top |-> 1, ty |-> "o", cc |-> 2, val |-> "or", scf |-> FALSE, sct |-> FALSE, sc |-> 0, pand |-> FALSE, por |-> FALSE, par |-> 0]>>],av |-> {},tree |-> [k |-> "o", kids |-> <<[k |-> "o", kids |-> <<[k |-> "o", kids |-> <<[k |-> "c", kids |-> <<>>, v |-> [t |-> "i", v |-> 2]], [k |-> "v", kids |-> <<>>, v |-> "n"]>>, v |-> "/"], [k |-> "c", kids |-> <<>>, v |-> [t |-> "i", v |-> 0]]>>, v |-> ">"], [k |-> "o", kids |-> <<[k |-> "v", kids |-> <<>>, v |-> "n"], [k |-> "c", kids |-> <<>>, v |-> [t |-> "i", v |-> 0]]>>, v |-> ">"]>>, v |-> "or"],try |-> FALSE,L |-> [max |-> 3, nodes |-> <<[top |-> 1, ty |-> "ev", cc |-> 2, val |-> 2, scf |-> FALSE, sct |-> FALSE, sc |-> 0, pand |-> FALSE, por |-> FALSE, par |-> 13], [top |-> 1, ty |-> "f", cc |-> 2, val |-> ">", scf |-> FALSE, sct |-> TRUE, sc |-> 0, pand |-> FALSE, por |-> TRUE, par |-> 14], [top |-> 1, ty |-> "v", cc |-> 0, val |-> "n", scf |-> FALSE, sct |-> FALSE, sc |-> 3, pand |-> FALSE, por |-> FALSE, par |-> 2], [top |-> 1, ty |-> "c", cc |-> 0, val |-> [t |-> "i", v |-> 0], scf |-> FALSE, sct |-> FALSE, sc |-> 4, pand |-> FALSE, por |-> FALSE, par |-> 2], [top |-> 2, ty |-> "ev", cc |-> 2, val |-> 6, scf |-> FALSE, sct |-> FALSE, sc |-> 6, pand |-> FALSE, por |-> FALSE, par |-> 11], [top |-> 2, ty |-> "f", cc |-> 2, val |-> "/", scf |-> FALSE, sct |-> FALSE, sc |-> 6, pand |-> FALSE, por |-> FALSE, par |-> 12], [top |-> 2, ty |-> "c", cc |-> 0, val |-> [t |-> "i", v |-> 2], scf |-> FALSE, sct |-> FALSE, sc |-> 7, pand |-> FALSE, por |-> FALSE, par |-> 6], [top |-> 2, ty |-> "v", cc |-> 0, val |-> "n", scf |-> FALSE, sct |-> FALSE, sc |-> 8, pand |-> FALSE, por |-> FALSE, par |-> 6], [top |-> 3, ty |-> "ev", cc |-> 0, val |-> 10, scf |-> FALSE, sct |-> FALSE, sc |-> 10, pand |-> FALSE, por |-> FALSE, par |-> 11], [top |-> 3, ty |-> "c", cc |-> 0, val |-> [t |-> "i", v |-> 0], scf |-> FALSE, sct |-> FALSE, sc |-> 10, pand |-> FALSE, por |-> FALSE, par |-> 12], [top |-> 2, ty |-> "ev", cc |-> 2, val |-> 12, scf |-> FALSE, sct |-> FALSE, sc |-> 0, pand |-> FALSE, por |-> FALSE, par |-> 13], [top |-> 2, ty |-> "o", cc |-> 2, val |-> ">", scf |-> TRUE, sct |-> TRUE, sc |-> 0, pand |-> FALSE, por |-> TRUE, par |-> 14], [top |-> 1, ty |-> "ev", cc |-> 2, val |-> 14, scf |-> FALSE, sct |-> FALSE, sc |-> 0, pand |-> FALSE, por |-> FALSE, par |-> 0], [top |-> 1, ty |-> "o", cc |-> 2, val |-> "or", scf |-> FALSE, sct |-> FALSE, sc |-> 0, pand |-> FALSE, por |-> FALSE, par |-> 0]>>],env |-> [x |-> [t |-> "b", v |-> FALSE], y |-> [t |-> "b", v |-> FALSE], n |-> [t |-> "i", v |-> 0]],mask |-> [cf |-> TRUE, rn |-> TRUE, fe |-> TRUE, ro |-> TRUE]]),
    ([s |-> [st |-> "done", top |-> 1, hw |-> 1, pc |-> 6, res |-> [t |-> "e", v |-> "div0"], eff |-> <<[k |-> "get", n |-> "n"], [k |-> "get", n |-> "n"]>>, out |-> <<[k |-> "loop", pos |-> 2, stack |-> <<>>], [k |-> "op", n |-> ">", ps |-> <<[t |-> "i", v |-> 0], [t |-> "i", v |-> 0]>>, r |-> [t |-> "b", v |-> FALSE], fast |-> TRUE, alias |-> TRUE], [k |-> "loop", pos |-> 6, stack |-> <<[t |-> "b", v |-> FALSE]>>], [k |-> "op", n |-> "/", ps |-> <<[t |-> "i", v |-> 2], [t |-> "i", v |-> 0]>>, r |-> [t |-> "e", v |-> "div0"], fast |-> TRUE, alias |-> TRUE]>>, buf |-> <<[t |-> "i", v |-> 2], [t |-> "i", v |-> 0]>>, os |-> <<[t |-> "b", v |-> FALSE], [t |-> "nil", v |-> "nil"], [t |-> "nil", v |-> "nil"], [t |-> "nil", v |-> "nil"], [t |-> "nil", v |-> "nil"], [t |-> "nil", v |-> "nil"], [t |-> "nil", v |-> "nil"], [t |-> "nil", v |-> "nil"]>>, hc |-> 0],T |-> [k |-> "o", kids |-> <<[k |-> "f", kids |-> <<[k |-> "v", kids |-> <<>>, v |-> "n"], [k |-> "c", kids |-> <<>>, v |-> [t |-> "i", v |-> 0]]>>, v |-> ">"], [k |-> "o", kids |-> <<[k |-> "f", kids |-> <<[k |-> "c", kids |-> <<>>, v |-> [t |-> "i", v |-> 2]], [k |-> "v", kids |-> <<>>, v |-> "n"]>>, v |-> "/"], [k |-> "c", kids |-> <<>>, v |-> [t |-> "i", v |-> 0]]>>, v |-> ">"]>>, v |-> "or"],L0 |-> [max |-> 3, nodes |-> <<[top |-> 1, ty |-> "f", cc |-> 2, val |-> ">", scf |-> FALSE, sct |-> TRUE, sc |-> 0, pand |-> FALSE, por |-> TRUE, par |-> 9], [top |-> 1, ty |-> "v", cc |-> 0, val |-> "n", scf |-> FALSE, sct |-> FALSE, sc |-> 2, pand |-> FALSE, por |-> FALSE, par |-> 1], [top |-> 1, ty |-> "c", cc |-> 0, val |-> [t |-> "i", v |-> 0], scf |-> FALSE, sct |-> FALSE, sc |-> 3, pand |-> FALSE, por |-> FALSE, par |-> 1], [top |-> 2, ty |-> "f", cc |-> 2, val |-> "/", scf |-> FALSE, sct |-> FALSE, sc |-> 4, pand |-> FALSE, por |-> FALSE, par |-> 8], [top |-> 2, ty |-> "c", cc |-> 0, val |-> [t |-> "i", v |-> 2], scf |-> FALSE, sct |-> FALSE, sc |-> 5, pand |-> FALSE, por |-> FALSE, par |-> 4], [top |-> 2, ty |-> "v", cc |-> 0, val |-> "n", scf |-> FALSE, sct |-> FALSE, sc |-> 6, pand |-> FALSE, por |-> FALSE, par |-> 4], [top |-> 3, ty |-> "c", cc |-> 0, val |-> [t |-> "i", v |-> 0], scf |-> FALSE, sct |-> FALSE, sc |-> 7, pand |-> FALSE, por |-> FALSE, par |-> 8], [top |-> 2, ty |-> "o", cc |-> 2, val |-> ">", scf |-> TRUE, sct |-> TRUE, sc |-> 0, pand |-> FALSE, por |-> TRUE, par |-> 9], [top |-> 1, ty |-> "o", cc |-> 2, val |-> "or", scf |-> FALSE, sct |-> FALSE, sc |-> 0, pand |-> FALSE, por |-> FALSE, par |-> 0]>>],av |-> {},tree |-> [k |-> "o", kids |-> <<[k |-> "o", kids |-> <<[k |-> "o", kids |-> <<[k |-> "c", kids |-> <<>>, v |-> [t |-> "i", v |-> 2]], [k |-> "v", kids |-> <<>>, v |-> "n"]>>, v |-> "/"], [k |-> "c", kids |-> <<>>, v |-> [t |-> "i", v |-> 0]]>>, v |-> ">"], [k |-> "o", kids |-> <<[k |-> "v", kids |-> <<>>, v |-> "n"], [k |-> "c", kids |-> <<>>, v |-> [t |-> "i", v |-> 0]]>>, v |-> ">"]>>, v |-> "or"],try |-> FALSE,L |-> [max |-> 3, nodes |-> <<[top |-> 1, ty |-> "ev", cc |-> 2, val |-> 2, scf |-> FALSE, sct |-> FALSE, sc |-> 0, pand |-> FALSE, por |-> FALSE, par |-> 13], [top |-> 1, ty |-> "f", cc |-> 2, val |-> ">", scf |-> FALSE, sct |-> TRUE, sc |-> 0, pand |-> FALSE, por |-> TRUE, par |-> 14], [top |-> 1, ty |-> "v", cc |-> 0, val |-> "n", scf |-> FALSE, sct |-> FALSE, sc |-> 3, pand |-> FALSE, por |-> FALSE, par |-> 2], [top |-> 1, ty |-> "c", cc |-> 0, val |-> [t |-> "i", v |-> 0], scf |-> FALSE, sct |-> FALSE, sc |-> 4, pand |-> FALSE, por |-> FALSE, par |-> 2], [top |-> 2, ty |-> "ev", cc |-> 2, val |-> 6, scf |-> FALSE, sct |-> FALSE, sc |-> 6, pand |-> FALSE, por |-> FALSE, par |-> 11], [top |-> 2, ty |-> "f", cc |-> 2, val |-> "/", scf |-> FALSE, sct |-> FALSE, sc |-> 6, pand |-> FALSE, por |-> FALSE, par |-> 12], [top |-> 2, ty |-> "c", cc |-> 0, val |-> [t |-> "i", v |-> 2], scf |-> FALSE, sct |-> FALSE, sc |-> 7, pand |-> FALSE, por |-> FALSE, par |-> 6], [top |-> 2, ty |-> "v", cc |-> 0, val |-> "n", scf |-> FALSE, sct |-> FALSE, sc |-> 8, pand |-> FALSE, por |-> FALSE, par |-> 6], [top |-> 3, ty |-> "ev", cc |-> 0, val |-> 10, scf |-> FALSE, sct |-> FALSE, sc |-> 10, pand |-> FALSE, por |-> FALSE, par |-> 11], [top |-> 3, ty |-> "c", cc |-> 0, val |-> [t |-> "i", v |-> 0], scf |-> FALSE, sct |-> FALSE, sc |-> 10, pand |-> FALSE, por |-> FALSE, par |-> 12], [top |-> 2, ty |-> "ev", cc |-> 2, val |-> 12, scf |-> FALSE, sct |-> FALSE, sc |-> 0, pand |-> FALSE, por |-> FALSE, par |-> 13], [top |-> 2, ty |-> "o", cc |-> 2, val |-> ">", scf |-> TRUE, sct |-> TRUE, sc |-> 0, pand |-> FALSE, por |-> TRUE, par |-> 14], [top |-> 1, ty |-> "ev", cc |-> 2, val |-> 14, scf |-> FALSE, sct |-> FALSE, sc |-> 0, pand |-> FALSE, por |-> FALSE, par |-> 0], [top |-> 1, ty |-> "o", cc |-> 2, val |-> "or", scf |-> FALSE, sct |-> FALSE, sc |-> 0, pand |-> FALSE, por |-> FALSE, par |-> 0]>>],env |-> [x |-> [t |-> "b", v |-> FALSE], y |-> [t |-> "b", v |-> FALSE], n |-> [t |-> "i", v |-> 0]],mask |-> [cf |-> TRUE, rn |-> TRUE, fe |-> TRUE, ro |-> TRUE]])
    >>
----


=============================================================================

---- CONFIG MCEvents_TTrace_1790416038 ----
CONSTANTS
    Big = FALSE
    Copied = FALSE

INVARIANT
    _inv

CHECK_DEADLOCK
    \* CHECK_DEADLOCK off because of PROPERTY or INVARIANT above.
    FALSE

INIT
    _init

NEXT
    _next

CONSTANT
    _TETrace <- _trace

ALIAS
    _expression
=============================================================================
\* Generated on Sat Sep 26 09:47:36 UTC 2026