------------------------------- MODULE JudgeTotal -------------------------------
(***************************************************************************)
(* Trace validation for property C06.                                      *)
(*  kind "text": a text compiled in four modes (prefix/infix x undefined-  *)
(*    variable mode), with Eval/TryEval/Dump/DumpTable on what compiled.   *)
(*    Property level: Compile returns a program or an error (never a       *)
(*    panic, never both, never neither); no later call panics or hangs.    *)
(*    Drift: the outcome class and the parse tree equal Parser!ParseText.  *)
(*  kind "op": one operator applied to a vector over the whole value       *)
(*    universe: value or error, never a panic (Operators!Apply predicts    *)
(*    the class: drift).                                                   *)
(* A panic is accepted as a KNOWN/FIXED finding only if the as-built       *)
(* parser model panics on the same text and the panic site is the one the  *)
(* finding names.                                                          *)
(***************************************************************************)
EXTENDS Parser, Layout, Json, IOUtils

Trace == ndJsonDeserialize(IOEnv.OBS)
VARIABLES l, judged, nontriv, skipped, drift, found
vars == <<l, judged, nontriv, skipped, drift, found>>
Idx(q) == 1..Len(q)
Card(X) == Cardinality(X)

PCOf(m) == [StdPC EXCEPT !.undef = m.undef, !.ops = {"f", "g", "h", "p", "one", "zt", "zf"}]
SiteFinding(site) ==
  CASE site = "eval.(*parser).check" -> "F-C06-1"
    [] site = "eval.(*parser).pos" -> "F-C06-2"
    [] site = "eval.(*parser).setLeafNodeParsers.(*parser).parseList.func1" -> "F-C06-3"
    [] site = "eval.(*parser).parseInfixExpression.func2" -> "F-C06-4"
    [] site \in {"eval.comparisonEquals", "eval.comparisonNotEquals"} -> "F-C06-5"
    [] OTHER -> "?"

\* ---- kind "text"
FText(r) ==
  {f \in {<<"C06", r.id, k, 0, sig>> : k \in Idx(r.modes), sig \in {"compile-panic", "compile-both", "compile-neither", "call-panic", "call-hang"}} :
     LET m == r.modes[f[3]] IN
     CASE f[5] = "compile-panic" -> m.cout = "panic"
       [] f[5] = "compile-both" -> m.cout = "both"
       [] f[5] = "compile-neither" -> m.cout = "nil"
       [] f[5] = "call-panic" -> \E j \in Idx(m.bad) : m.bad[j].out = "p"
       [] f[5] = "call-hang" -> \E j \in Idx(m.bad) : m.bad[j].out = "to"}
\* explained by the as-built model
KText(r) ==
  {f \in FText(r) :
     LET m == r.modes[f[3]] IN
     \/ (f[5] = "compile-panic" /\ r.known /\ SiteFinding(m.csite) \in {"F-C06-1", "F-C06-2", "F-C06-3", "F-C06-4"} /\
         ParseText(r.text, m.infix, PCOf(m), TRUE).r = "panic")
     \/ (f[5] = "compile-panic" /\ SiteFinding(m.csite) = "F-C06-5")       \* constant folding of (= list list)
     \/ (f[5] = "call-panic" /\ \A j \in Idx(m.bad) : m.bad[j].out = "p" => SiteFinding(m.bad[j].site) = "F-C06-5")}
KId(r, f) == LET m == r.modes[f[3]] IN
             IF f[5] = "compile-panic" THEN SiteFinding(m.csite) ELSE "F-C06-5"
DText(r) ==
  IF ~r.known THEN {} ELSE
  {f \in {<<"DRIFT", r.id, k, what>> : k \in Idx(r.modes), what \in {"parse-outcome", "parse-tree"}} :
     LET m == r.modes[f[3]]
         p == ParseText(r.text, m.infix, PCOf(m), FALSE)
     IN CASE f[4] = "parse-outcome" -> m.cout \in {"ok", "err"} /\ p.r # m.cout /\
                                       \* node / operand limits are the layout's business, not the parser's
                                       ~(p.r = "ok" /\ m.cout = "err" /\ CheckTree(p.tree, RealLimits) # "ok")
          [] f[4] = "parse-tree" -> m.cout = "ok" /\ p.r = "ok" /\ m.dok /\ ~TreeEq(p.tree, m.dtree)}

\* ---- kind "op"
FOp(r) == {f \in {<<"C06", r.id, k, 0, "operator-panic">> : k \in Idx(r.outs)} : r.outs[f[3]].t = "p"}
KOp(r) == {f \in FOp(r) : SiteFinding(r.outs[f[3]].v) = "F-C06-5" /\ OpDeviation(r.op, r.ps) # <<>> /\ OpDeviation(r.op, r.ps)[1] = "F-C06-5"}
HasWide(ps) == \E i \in Idx(ps) : ps[i].t = "w"
DOp(r) ==
  \* (and/or are evaluated by the engine's short-circuit jumps, not by one call: see C18)
  IF HasWide(r.ps) \/ Canon(r.op) \in {"date", "datetime", "t_time", "t_date", "td_time", "td_date", "and", "or"} THEN {} ELSE
  {f \in {<<"DRIFT", r.id, k, "operator-class">> : k \in Idx(r.outs)} :
     LET o == r.outs[f[3]]  want == Apply(r.op, r.ps) IN
     o.t \notin {"p", "ce"} /\ (IsErr(want) # (o.t = "e"))}

\* ---- kind "ctx": a context built by the library for a key layout, and evaluation through it
FCtx(r) == {f \in {<<"C06", r.id, k, 0, sig>> : k \in Idx(r.bad), sig \in {"context-panic", "context-hang"}} :
              IF f[5] = "context-panic" THEN r.bad[f[3]].out = "p" ELSE r.bad[f[3]].out = "to"}

Init == l = 1 /\ judged = 0 /\ nontriv = 0 /\ skipped = 0 /\ drift = 0 /\ found = 0
Next ==
  /\ l <= Len(Trace)
  /\ l' = l + 1
  /\ LET r == Trace[l]
         F0 == CASE r.kind = "text" -> FText(r) [] r.kind = "ctx" -> FCtx(r) [] OTHER -> FOp(r)
         K == CASE r.kind = "text" -> KText(r) [] r.kind = "ctx" -> {} [] OTHER -> KOp(r)
         F == F0 \ K
         D == CASE r.kind = "text" -> DText(r) [] r.kind = "ctx" -> {} [] OTHER -> DOp(r)
     IN /\ \A f \in F : PrintT(<<"F", f[1], f[2], f[3], f[4], f[5]>>)
        /\ \A f \in K : PrintT(<<"K", f[1], f[2], f[3], f[4], IF r.kind = "text" THEN KId(r, f) ELSE "F-C06-5">>)
        /\ \A f \in D : PrintT(<<"DRIFT", f[2], f[3], f[4]>>)
        /\ judged' = judged + (CASE r.kind = "text" -> Len(r.modes) [] r.kind = "ctx" -> r.ncalls [] OTHER -> Len(r.outs))
        /\ nontriv' = nontriv + (IF r.kind = "text"
                                 THEN Card({k \in Idx(r.modes) : r.modes[k].cout = "err" /\ r.len >= 2}) +
                                      Card({k \in Idx(r.modes) : r.modes[k].cout = "ok"})
                                 ELSE IF r.kind = "ctx" THEN r.ncalls
                                 ELSE Card({k \in Idx(r.outs) : r.outs[k].t = "e"}))
        /\ skipped' = skipped
        /\ drift' = drift + (IF r.kind = "text" /\ r.known THEN Len(r.modes) ELSE IF r.kind = "op" THEN Len(r.outs) ELSE 0)
        /\ found' = found + Card(F)
Spec == Init /\ [][Next]_vars
Done == l = Len(Trace) + 1 => PrintT(<<"SUMMARY", l - 1, judged, nontriv, skipped, drift, found>>)
Accepted == TLCGet("stats").diameter - 1 = Len(Trace)
=============================================================================
