SPECIFICATION JSpec
INVARIANT Done
POSTCONDITION Accepted
CHECK_DEADLOCK FALSE
