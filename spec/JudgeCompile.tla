------------------------------ MODULE JudgeCompile ------------------------------
(***************************************************************************)
(* Trace validation for property C08.                                      *)
(*  kind "history": a sequential history of Compile / CopyConfig /         *)
(*    ExtendConf / caller mutation on real configs.  The judge walks the   *)
(*    steps carrying a memo (config contents, source) -> program, i.e. the *)
(*    state of CompileHistory.tla, and checks CallerUntouched,             *)
(*    Deterministic and NoAliasing on the recorded snapshots.              *)
(*  kind "concurrent": compilations of one shared config by 8 goroutines   *)
(*    against the sequential baseline.                                     *)
(*  kind "conv": the convenience call eval.Eval(src, vals) WITHOUT options  *)
(*    (config derived from vals alone, default optimizations), repeated    *)
(*    with the same source and the same names but other operator functions *)
(*    behind the names: each call's value is the meaning of the source     *)
(*    under THAT call's operators (Semantics!Den after renaming), whatever *)
(*    was compiled before.                                                 *)
(***************************************************************************)
EXTENDS Machine, Json, IOUtils

Trace == ndJsonDeserialize(IOEnv.OBS)
VARIABLES l, judged, nontriv, skipped, drift, found
vars == <<l, judged, nontriv, skipped, drift, found>>
Idx(q) == 1..Len(q)
Card(X) == Cardinality(X)

FHistory(r) ==
  LET n == Len(r.steps)
      \* memo: set of <<config contents, source, program>>
      RECURSIVE walk(_, _, _)
      walk(k, memo, acc) ==
        IF k > n THEN acc
        ELSE LET st == r.steps[k] IN
          CASE st.op = "compile" ->
                 LET f1 == IF st.before # st.after THEN {<<"C08", r.id, k, 0, "compile-modified-callers-config">>} ELSE {}
                     f2 == IF \E m \in memo : m[1] = st.before /\ m[2] = st.src /\ m[3] # st.fp
                           THEN {<<"C08", r.id, k, 0, "same-config-and-source-different-program">>} ELSE {}
                     f3 == IF st.panic THEN {<<"C08", r.id, k, 0, "compile-panics">>} ELSE {}
                     \* the program is rendered again at the end of the history: no later compilation, copy or
                     \* caller-side change may have altered what an already compiled program is or does
                     f4 == IF st.fpend # st.fp THEN {<<"C08", r.id, k, 0, "a-later-step-changed-an-already-compiled-program">>} ELSE {}
                 IN walk(k + 1, memo \cup {<<st.before, st.src, st.fp>>}, acc \cup f1 \cup f2 \cup f3 \cup f4)
            [] st.op \in {"copy", "extend"} ->
                 walk(k + 1, memo,
                      acc \cup (IF st.before # st.after THEN {<<"C08", r.id, k, 0, "mutating-a-copy-changed-its-source">>} ELSE {})
                          \cup (IF st.op = "copy" /\ ~st.equalcopy THEN {<<"C08", r.id, k, 0, "copy-differs-from-source">>} ELSE {})
                          \cup (IF ~st.copyholds THEN {<<"C08", r.id, k, 0, "copy-lost-its-own-mutation">>} ELSE {}))
            [] OTHER -> walk(k + 1, memo, acc)
  IN walk(1, {}, {})
FConcurrent(r) ==
  (IF r.before # r.after THEN {<<"C08", r.id, 0, 0, "concurrent-compiles-modified-config">>} ELSE {})
  \cup {<<"C08", r.id, k, 0, "concurrent-compile-differs-from-sequential">> : k \in {j \in Idx(r.runs) : r.runs[j].fp # r.runs[j].want}}

SwapName(n) == CASE n = "f" -> "g" [] n = "g" -> "f" [] n = "zt" -> "zf" [] n = "zf" -> "zt" [] OTHER -> n
RECURSIVE SwapOps(_)
SwapOps(t) ==
  IF t.k \in {"c", "v"} THEN t
  ELSE LET RECURSIVE kids(_, _)
           kids(i, acc) == IF i > Len(t.kids) THEN acc ELSE kids(i + 1, Append(acc, SwapOps(t.kids[i])))
       IN [t EXCEPT !.v = SwapName(@), !.kids = kids(1, <<>>)]
FConv(r) ==
  {f \in {<<"C08", r.id, k, 0, "convenience-call-ran-another-program">> : k \in Idx(r.calls)} :
     LET c == r.calls[f[3]]
         t == IF c.swap THEN SwapOps(r.tree) ELSE r.tree
         d == Den(t, c.env)
     IN ~OutOfDomain(d) /\
        (IsPanic(c.res) \/ (Total(t, c.env) /\ ~OutcomeEq(c.res, d)) \/ (Ok(c.res) /\ Ok(d) /\ ~VEq(c.res, d)))}
NConv(r) == Card({k \in Idx(r.calls) : r.calls[k].swap /\ ~OutcomeEq(Den(SwapOps(r.tree), r.calls[k].env), Den(r.tree, r.calls[k].env))})

Init == l = 1 /\ judged = 0 /\ nontriv = 0 /\ skipped = 0 /\ drift = 0 /\ found = 0
Next ==
  /\ l <= Len(Trace)
  /\ l' = l + 1
  /\ LET r == Trace[l]
         F == CASE r.kind = "history" -> FHistory(r) [] r.kind = "conv" -> FConv(r) [] OTHER -> FConcurrent(r)
     IN /\ \A f \in F : PrintT(<<"F", f[1], f[2], f[3], f[4], f[5]>>)
        /\ judged' = judged + (CASE r.kind = "history" -> Len(r.steps) [] r.kind = "conv" -> Len(r.calls) [] OTHER -> Len(r.runs))
        /\ nontriv' = nontriv + (IF r.kind = "conv" THEN NConv(r) ELSE IF r.kind = "history"
                                 THEN Card({k \in Idx(r.steps) : r.steps[k].op = "compile" /\ r.steps[k].compiled /\
                                              \E j \in 1..(k - 1) : r.steps[j].op = "compile" /\ r.steps[j].cfg = r.steps[k].cfg})
                                      + Card({k \in Idx(r.steps) : r.steps[k].op \in {"copy", "extend"}})
                                 ELSE Len(r.runs))
        /\ skipped' = skipped /\ drift' = drift
        /\ found' = found + Card(F)
Spec == Init /\ [][Next]_vars
Done == l = Len(Trace) + 1 => PrintT(<<"SUMMARY", l - 1, judged, nontriv, skipped, drift, found>>)
Accepted == TLCGet("stats").diameter - 1 = Len(Trace)
=============================================================================
