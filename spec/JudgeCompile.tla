------------------------------ MODULE JudgeCompile ------------------------------
(***************************************************************************)
(* Trace validation for property C08.                                      *)
(*  kind "history": a sequential history of Compile / CopyConfig /         *)
(*    ExtendConf / caller mutation on real configs.  The judge walks the   *)
(*    steps carrying a memo (config contents, source) -> program, i.e. the *)
(*    state of CompileHistory.tla, and checks CallerUntouched,             *)
(*    Deterministic and NoAliasing on the recorded snapshots.              *)
(*  kind "concurrent": compilations of one shared config by 8 goroutines   *)
(*    against the sequential baseline.                                     *)
(***************************************************************************)
EXTENDS Integers, Sequences, FiniteSets, TLC, Json, IOUtils

Trace == ndJsonDeserialize(IOEnv.OBS)
VARIABLES l, judged, nontriv, skipped, drift, found
vars == <<l, judged, nontriv, skipped, drift, found>>
Idx(q) == 1..Len(q)
Card(X) == Cardinality(X)

FHistory(r) ==
  LET n == Len(r.steps)
      \* memo: set of <<config contents, source, program>>
      RECURSIVE walk(_, _, _)
      walk(k, memo, acc) ==
        IF k > n THEN acc
        ELSE LET st == r.steps[k] IN
          CASE st.op = "compile" ->
                 LET f1 == IF st.before # st.after THEN {<<"C08", r.id, k, 0, "compile-modified-callers-config">>} ELSE {}
                     f2 == IF \E m \in memo : m[1] = st.before /\ m[2] = st.src /\ m[3] # st.fp
                           THEN {<<"C08", r.id, k, 0, "same-config-and-source-different-program">>} ELSE {}
                     f3 == IF st.panic THEN {<<"C08", r.id, k, 0, "compile-panics">>} ELSE {}
                 IN walk(k + 1, memo \cup {<<st.before, st.src, st.fp>>}, acc \cup f1 \cup f2 \cup f3)
            [] st.op \in {"copy", "extend"} ->
                 walk(k + 1, memo,
                      acc \cup (IF st.before # st.after THEN {<<"C08", r.id, k, 0, "mutating-a-copy-changed-its-source">>} ELSE {})
                          \cup (IF st.op = "copy" /\ ~st.equalcopy THEN {<<"C08", r.id, k, 0, "copy-differs-from-source">>} ELSE {})
                          \cup (IF ~st.copyholds THEN {<<"C08", r.id, k, 0, "copy-lost-its-own-mutation">>} ELSE {}))
            [] OTHER -> walk(k + 1, memo, acc)
  IN walk(1, {}, {})
FConcurrent(r) ==
  (IF r.before # r.after THEN {<<"C08", r.id, 0, 0, "concurrent-compiles-modified-config">>} ELSE {})
  \cup {<<"C08", r.id, k, 0, "concurrent-compile-differs-from-sequential">> : k \in {j \in Idx(r.runs) : r.runs[j].fp # r.runs[j].want}}

Init == l = 1 /\ judged = 0 /\ nontriv = 0 /\ skipped = 0 /\ drift = 0 /\ found = 0
Next ==
  /\ l <= Len(Trace)
  /\ l' = l + 1
  /\ LET r == Trace[l]
         F == IF r.kind = "history" THEN FHistory(r) ELSE FConcurrent(r)
     IN /\ \A f \in F : PrintT(<<"F", f[1], f[2], f[3], f[4], f[5]>>)
        /\ judged' = judged + (IF r.kind = "history" THEN Len(r.steps) ELSE Len(r.runs))
        /\ nontriv' = nontriv + (IF r.kind = "history"
                                 THEN Card({k \in Idx(r.steps) : r.steps[k].op = "compile" /\ r.steps[k].compiled /\
                                              \E j \in 1..(k - 1) : r.steps[j].op = "compile" /\ r.steps[j].cfg = r.steps[k].cfg})
                                      + Card({k \in Idx(r.steps) : r.steps[k].op \in {"copy", "extend"}})
                                 ELSE Len(r.runs))
        /\ skipped' = skipped /\ drift' = drift
        /\ found' = found + Card(F)
Spec == Init /\ [][Next]_vars
Done == l = Len(Trace) + 1 => PrintT(<<"SUMMARY", l - 1, judged, nontriv, skipped, drift, found>>)
Accepted == TLCGet("stats").diameter - 1 = Len(Trace)
=============================================================================
