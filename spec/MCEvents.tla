------------------------------ MODULE MCEvents ------------------------------
(***************************************************************************)
(* Property C12 at model level.  The program with event nodes              *)
(* (Layout!AddEvents) is stepped by the Eval machine (and by the TryEval   *)
(* machine) in event mode and compared with the plain program: same        *)
(* result, same decompiled tree, OP_EXEC events = the operator             *)
(* applications of the evaluation, LOOP positions strictly increasing.     *)
(* Copied = FALSE is the pinned code before the fix (the OP_EXEC event of  *)
(* a two-operand application aliases the reused argument buffer):          *)
(* LateReaderFaithful then fails, which is finding F-C12-1.                *)
(***************************************************************************)
EXTENDS Machine, Json

CONSTANTS Big, Copied

BLeaves == {C(B(TRUE)), C(B(FALSE)), V("x"), V("y")}
ILeaves == {C(I(0)), C(I(2)), V("n")}
ArithT == {O("+", <<V("n"), C(I(2))>>), O("/", <<C(I(2)), V("n")>>), O("/", <<V("n"), C(I(2))>>)}
Cmps == {O(">", <<a, b>>) : a \in ArithT \cup {V("n")}, b \in {C(I(0))}}
        \cup {O(">", <<a, b>>) : a \in {O("+", <<V("n"), C(I(2))>>)}, b \in {O("-", <<C(I(2)), V("n")>>)}}
B1 == Cmps \cup {O(o, <<a, b>>) : o \in {"and", "or"}, a \in {V("x"), C(B(TRUE))}, b \in {V("y"), C(B(FALSE))}}
      \cup {O("f", <<a, b>>) : a \in {V("x")}, b \in {V("y"), C(B(TRUE))}} \cup {O("not", <<V("x")>>)}
Trees0 == {O(o, <<a, b>>) : o \in {"and", "or", "eq"}, a \in B1, b \in B1 \cup {V("y")}}
          \cup {If(c, a, b) : c \in {V("x")} \cup Cmps, a \in B1, b \in {V("y"), C(B(FALSE))}}
          \cup {O(o, <<a, b, c>>) : o \in {"and", "or"}, a \in Cmps, b \in {V("x")}, c \in {O("eq", <<V("x"), V("y")>>)}}
Trees == IF Big THEN Trees0 ELSE {t \in Trees0 : t.k = "if" \/ Len(t.kids) = 3 \/ t.kids[2] \in Cmps \cup {V("y")}}
MaskSet == IF Big THEN Masks ELSE {AllOff, [cf |-> TRUE, rn |-> TRUE, fe |-> TRUE, ro |-> TRUE],
                                   [cf |-> FALSE, rn |-> FALSE, fe |-> TRUE, ro |-> FALSE]}
Envs == {[x |-> B(bx), y |-> B(by), n |-> I(nn)] : bx \in BOOLEAN, by \in BOOLEAN, nn \in {0, 2}}
Cfg == DefaultCfg

VARIABLES tree, mask, env, av, try, T, L0, L, s
vars == <<tree, mask, env, av, try, T, L0, L, s>>
Init == /\ tree \in Trees /\ mask = AllOff /\ env = [x |-> B(TRUE), y |-> B(TRUE), n |-> I(0)] /\ av = {} /\ try = FALSE
        /\ T = tree /\ L0 = <<>> /\ L = <<>> /\ s = [st |-> "cfg"]
Configure == /\ s.st = "cfg"
             /\ mask' \in MaskSet /\ env' \in Envs /\ try' \in BOOLEAN
             /\ av' \in (IF try' THEN {{"x", "y", "n"}, {"y", "n"}, {"x"}} ELSE {{}})
             /\ T' = Optimize(tree, mask', Cfg)
             /\ L0' = Layout(T')
             /\ L' = AddEvents(L0')
             /\ s' = InitState(L', 0)
             /\ UNCHANGED tree
StepM == /\ s.st = "run"
         /\ s' = IF try THEN TryNext(L, env, av, s, TRUE, Copied) ELSE EvalNext(L, env, s, TRUE, Copied)
         /\ UNCHANGED <<tree, mask, env, av, try, T, L0, L>>
Next == Configure \/ StepM
Spec == Init /\ [][Next]_vars

Done == s.st = "done"
NoPanic == s.st \in {"cfg", "run", "done"}
StackSafe == s.st = "cfg" \/ (s.top >= 0 /\ s.top <= L.max /\ s.hw <= L.max)
PcMonotone == [][(s.st = "run" /\ s'.st = "run") => s'.pc > s.pc]_vars

SameResult == Done => OutcomeEq(s.res, IF try THEN TryRun(L0, env, av).res ELSE Run(L0, env).res)
SameDump == s.st = "cfg" \/ TreeEq(DumpOf(L), DumpOf(L0))
SameEffects == Done => LET p == IF try THEN TryRun(L0, env, av) ELSE Run(L0, env) IN Len(p.eff) = Len(s.eff)

Plain(out) == SelectSeq(out, LAMBDA e : e.k = "op" /\ e.n \notin AndNames \cup OrNames)
AppsEq(evs, want) ==
  /\ Len(evs) = Len(want)
  /\ \A i \in 1..Len(evs) : /\ evs[i].n = want[i].n
                            /\ Len(evs[i].ps) = Len(want[i].ps)
                            /\ \A k \in 1..Len(evs[i].ps) : VEq(evs[i].ps[k], want[i].ps[k])
                            /\ OutcomeEq(evs[i].r, want[i].r)
\* a consumer that copies on receipt
OpExecFaithful == (Done /\ ~try) => AppsEq(Plain(s.out), AppSeq(Unfast(T), env))
\* a consumer that looks at the events after the evaluation has finished
LateReaderFaithful == (Done /\ ~try) => AppsEq(Plain(ReadLater(s.out, s.buf)), AppSeq(Unfast(T), env))
\* every OP_EXEC event is self-consistent, for Eval and TryEval
OpSelfConsistent == s.st = "cfg" \/ \A i \in 1..Len(s.out) :
                      s.out[i].k = "op" => OutcomeEq(ApplyAny(s.out[i].n, s.out[i].ps), s.out[i].r)
LoopMonotone == s.st = "cfg" \/ \A i \in 1..(Len(s.out) - 1) : \A j \in (i + 1)..Len(s.out) :
                  (s.out[i].k = "loop" /\ s.out[j].k = "loop") => s.out[i].pos < s.out[j].pos
\* each LOOP event announces the real node that follows it
LoopAnnounces == s.st = "cfg" \/ \A i \in 1..Len(s.out) : s.out[i].k = "loop" =>
                   (s.out[i].pos \in 1..Len(L.nodes) /\ L.nodes[s.out[i].pos].ty # "ev")
\* every tree of the bounded set is printed once, for replay against the real code
EmitTrees == (s.st = "cfg") => PrintT("CASE " \o ToJson(tree))
=============================================================================
