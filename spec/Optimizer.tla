----------------------------- MODULE Optimizer -----------------------------
(***************************************************************************)
(* The optimizer pipeline of compiler.go:200-442, pass by pass, bottom-up, *)
(* in the coded order ConstantFolding -> ReduceNesting -> FastEvaluation   *)
(* -> Reordering.  Implementation-shaped: written to predict the tree the  *)
(* real optimizer produces (checked against Dump and the exported flat     *)
(* program), not to be minimal.                                            *)
(*                                                                         *)
(* cfg: [stateless |-> set of registered operator names declared           *)
(*       stateless, costs |-> function from names to integer costs]        *)
(***************************************************************************)
EXTENDS Semantics

\* (strict: built with Append.  A lazily applied [i \in 1..n |-> F(t.kids[i])] is re-evaluated by TLC at every
\*  application, which is exponential in the depth of the tree)
MapKids(F(_), t) ==
  LET RECURSIVE go(_, _)
      go(i, acc) == IF i > Len(t.kids) THEN acc ELSE go(i + 1, Append(acc, F(t.kids[i])))
  IN [t EXCEPT !.kids = go(1, <<>>)]

DefaultCfg == [stateless |-> {"p"}, costs |-> <<>>]

StatelessOp(t, cfg) == IsOp(t) /\ (IsBuiltin(t.v) \/ t.v \in cfg.stateless)

(***************************************************************************)
(* ConstantFolding (compiler.go:340-391).  Not applied to `if`.  For       *)
(* and/or the operands are scanned left to right: a non-boolean constant   *)
(* stops folding of this node, the first absorbing boolean constant        *)
(* replaces the node whatever the other operands are; otherwise the node   *)
(* folds only if every operand is a constant and the call succeeds.  A     *)
(* failing call leaves the node in place (failure deferred to run time).   *)
(***************************************************************************)
RECURSIVE CFc(_, _)
CFc(t0, cfg) ==
  LET RECURSIVE kidsCF(_, _)
      kidsCF(i, acc) == IF i > Len(t0.kids) THEN acc ELSE kidsCF(i + 1, Append(acc, CFc(t0.kids[i], cfg)))
      t == [t0 EXCEPT !.kids = kidsCF(1, <<>>)]
      n == Len(t.kids)
      RECURSIVE scan(_)
      scan(i) ==
        IF i > n THEN [r |-> "cont"]
        ELSE IF t.kids[i].k # "c" THEN scan(i + 1)
        ELSE IF t.kids[i].v.t # "b" THEN [r |-> "stop"]
        ELSE IF (t.kids[i].v.v /\ IsOr(t)) \/ (~t.kids[i].v.v /\ IsAnd(t)) THEN [r |-> "abs", b |-> t.kids[i].v]
        ELSE scan(i + 1)
      allc == \A i \in 1..n : t.kids[i].k = "c"
      folded == LET res == ApplyAny(t.v, [i \in 1..n |-> t.kids[i].v]) IN IF Ok(res) THEN C(res) ELSE t
  IN IF ~StatelessOp(t, cfg) THEN t
     ELSE IF IsBoolOp(t)
          THEN LET s == scan(1) IN
               IF s.r = "stop" THEN t
               ELSE IF s.r = "abs" THEN C(s.b)
               ELSE IF allc THEN folded ELSE t
          ELSE IF allc THEN folded ELSE t

\* The operator calls ConstantFolding makes at compile time, in order
\* (property C10: only built-in and stateless-declared operators).
RECURSIVE CFCalls(_, _)
CFCalls(t0, cfg) ==   \* returns [t |-> folded tree, calls |-> seq of names]
  LET n0 == Len(t0.kids)
      RECURSIVE sub(_, _, _)
      sub(i, ks, calls) == IF i > n0 THEN [ks |-> ks, calls |-> calls]
                           ELSE LET r == CFCalls(t0.kids[i], cfg) IN sub(i + 1, Append(ks, r.t), calls \o r.calls)
      s0 == sub(1, <<>>, <<>>)
      t == [t0 EXCEPT !.kids = s0.ks]
      n == n0
      RECURSIVE scan(_)
      scan(i) ==
        IF i > n THEN "cont"
        ELSE IF t.kids[i].k # "c" THEN scan(i + 1)
        ELSE IF t.kids[i].v.t # "b" THEN "stop"
        ELSE IF (t.kids[i].v.v /\ IsOr(t)) \/ (~t.kids[i].v.v /\ IsAnd(t)) THEN "abs"
        ELSE scan(i + 1)
      allc == \A i \in 1..n : t.kids[i].k = "c"
      sc == IF IsBoolOp(t) THEN scan(1) ELSE "cont"
      called == StatelessOp(t, cfg) /\ sc = "cont" /\ allc
  IN [t |-> CFc(t0, cfg), calls |-> IF called THEN Append(s0.calls, t.v) ELSE s0.calls]

(***************************************************************************)
(* ReduceNesting (compiler.go:209-238): an and/or node absorbs the         *)
(* operand lists of its same-kind children only if EVERY operand is a leaf *)
(* or a same-kind and/or node (aliases count as the same kind).            *)
(***************************************************************************)
RECURSIVE RN(_)
RN(t0) ==
  LET t == MapKids(RN, t0)
      n == Len(t.kids)
      ok(c) == Leaf(c) \/ (IsBoolOp(c) /\ (IsAnd(c) = IsAnd(t)))
      RECURSIVE cat(_, _)
      cat(i, acc) == IF i > n THEN acc
                     ELSE cat(i + 1, acc \o (IF Leaf(t.kids[i]) THEN <<t.kids[i]>> ELSE t.kids[i].kids))
  IN IF ~IsBoolOp(t) THEN t
     ELSE IF \A i \in 1..n : ok(t.kids[i]) THEN [t EXCEPT !.kids = cat(1, <<>>)] ELSE t

(***************************************************************************)
(* FastEvaluation (compiler.go:422-442): any operator node (custom ones    *)
(* and and/or included) with exactly two operands that are both leaves.    *)
(***************************************************************************)
RECURSIVE FE(_)
FE(t0) ==
  LET t == MapKids(FE, t0) IN
  IF t.k = "o" /\ Len(t.kids) = 2 /\ Leaf(t.kids[1]) /\ Leaf(t.kids[2]) THEN [t EXCEPT !.k = "f"] ELSE t

(***************************************************************************)
(* Reordering (compiler.go:270-338).  Integer costs: all built-in base     *)
(* costs are integers; configured costs are integers in the model.         *)
(***************************************************************************)
CostOf(costs, class, name, dflt) ==
  IF name \in DOMAIN costs THEN costs[name]
  ELSE IF class \in DOMAIN costs THEN costs[class] ELSE dflt

\* stable insertion sort of <<cost, tree>> pairs, ascending by cost
RECURSIVE InsertStable(_, _)
InsertStable(sorted, x) ==
  IF sorted = <<>> THEN <<x>>
  ELSE IF x[1] <= Head(sorted)[1] THEN <<x>> \o sorted
  ELSE <<Head(sorted)>> \o InsertStable(Tail(sorted), x)
SortStable(s) ==
  LET RECURSIVE go(_, _)
      go(i, acc) == IF i = 0 THEN acc ELSE go(i - 1, InsertStable(acc, s[i]))
  IN go(Len(s), <<>>)

\* ROc(t) returns <<cost, reordered tree>>
RECURSIVE ROc(_, _)
ROc(t0, costs) ==
  LET n == Len(t0.kids)
      \* (Append-built: a lazily applied [i \in 1..n |-> ...] would be re-evaluated per use)
      RECURSIVE col(_, _)
      col(i, acc) == IF i > n THEN acc ELSE col(i + 1, Append(acc, ROc(t0.kids[i], costs)))
      ks == col(1, <<>>)
      RECURSIVE sum(_, _)
      sum(i, acc) == IF i > n THEN acc ELSE sum(i + 1, acc + ks[i][1])
      mx(a, b) == IF a > b THEN a ELSE b
      cost == CASE t0.k = "c" -> 1
                [] t0.k = "v" -> 5 + CostOf(costs, "variable", t0.v, 7)
                [] t0.k = "f" -> 5 + CostOf(costs, "operator", t0.v, 10) + sum(1, 0)
                [] t0.k = "o" -> (n + 1) + 5 + CostOf(costs, "operator", t0.v, 10) + sum(1, 0)
                [] t0.k = "if" -> 4 + ks[1][1] + mx(ks[2][1], ks[3][1])
      sorted == IF IsBoolOp(t0) THEN SortStable(ks) ELSE ks
      RECURSIVE trees(_, _)
      trees(i, acc) == IF i > n THEN acc ELSE trees(i + 1, Append(acc, sorted[i][2]))
  IN <<cost, [t0 EXCEPT !.kids = trees(1, <<>>)]>>
RO(t, costs) == ROc(t, costs)[2]
Cost(t, costs) == ROc(t, costs)[1]

Optimize(t, m, cfg) ==  \* m: [cf, rn, fe, ro : BOOLEAN]
  LET a == IF m.cf THEN CFc(t, cfg) ELSE t
      b == IF m.rn THEN RN(a) ELSE a
      c == IF m.fe THEN FE(b) ELSE b
  IN IF m.ro THEN RO(c, cfg.costs) ELSE c

Masks == [cf : BOOLEAN, rn : BOOLEAN, fe : BOOLEAN, ro : BOOLEAN]
AllOff == [cf |-> FALSE, rn |-> FALSE, fe |-> FALSE, ro |-> FALSE]

(***************************************************************************)
(* ReorderAny: every tree obtainable by permuting and/or operand lists at  *)
(* every level.  Over-approximates Reordering under EVERY CostsMap         *)
(* (negative, zero, huge, NaN: a stable sort under an inconsistent `less`  *)
(* still yields a permutation).  Used by the model checks of C02-C05.      *)
(***************************************************************************)
Perms(n) == {f \in [1..n -> 1..n] : \A i, j \in 1..n : f[i] = f[j] => i = j}
RECURSIVE ReorderAny(_)
ReorderAny(t) ==
  LET n == Len(t.kids) IN
  IF n = 0 THEN {t}
  ELSE LET kidSets == [i \in 1..n |-> ReorderAny(t.kids[i])]
           choices == {ks \in [1..n -> UNION {kidSets[i] : i \in 1..n}] : \A i \in 1..n : ks[i] \in kidSets[i]}
       IN IF IsBoolOp(t)
          THEN {[t EXCEPT !.kids = [i \in 1..n |-> ks[pi[i]]]] : ks \in choices, pi \in Perms(n)}
          ELSE {[t EXCEPT !.kids = ks] : ks \in choices}

\* Tree equality up to the "fast" marking (Dump does not show it).
RECURSIVE Unfast(_)
Unfast(t) == LET u == MapKids(Unfast, t) IN IF u.k = "f" THEN [u EXCEPT !.k = "o"] ELSE u

\* equality up to permutation of and/or operand lists (property C16)
RECURSIVE PermEq(_, _)
PermEq(a, b) ==
  /\ a.k = b.k
  /\ (IF a.k = "c" THEN VEq(a.v, b.v) ELSE a.v = b.v)
  /\ Len(a.kids) = Len(b.kids)
  /\ IF IsBoolOp(a)
     THEN \* same multiset of operands up to PermEq (an equivalence): every operand occurs
          \* equally often on both sides (no enumeration of permutations)
          \A i \in 1..Len(a.kids) :
             Cardinality({p \in 1..Len(a.kids) : PermEq(a.kids[p], a.kids[i])}) =
             Cardinality({q \in 1..Len(b.kids) : PermEq(b.kids[q], a.kids[i])})
     ELSE \A i \in 1..Len(a.kids) : PermEq(a.kids[i], b.kids[i])
=============================================================================
