-------------------------------- MODULE MCGen --------------------------------
(***************************************************************************)
(* Property C20 at model level: every script of draws (each draw from a    *)
(* small representative set of the pending Intn's range) for levels        *)
(* 0..MaxLevel, both result types, all combinations of the generator       *)
(* options, a variable set with a zero-valued number, booleans and a DNE   *)
(* variable: when the generator finishes, the reported result is the value *)
(* of the generated tree (Den without DNE variables, Kleene with them).    *)
(***************************************************************************)
EXTENDS Generator
CONSTANTS MaxLevel, Wide

Cfgs == {[var |-> v, cond |-> c, try |-> t, type |-> ty,
          nums |-> <<[name |-> "n", val |-> I(0)], [name |-> "m", val |-> I(3)]>>,
          bools |-> <<[name |-> "x", val |-> B(TRUE)], [name |-> "y", val |-> B(FALSE)]>>,
          dnes |-> <<[name |-> "d", val |-> DNE]>>] : v \in BOOLEAN, c \in BOOLEAN, t \in BOOLEAN, ty \in {"b", "i"}}

\* representative draws for Intn(n)
Reps(n) == IF Wide
           THEN CASE n = 10 -> {0, 1, 3, 4, 5}            \* not / dne-or-var / var / if / multi-op picks
                  [] n = 100 -> {0, 49, 50, 52, 99}        \* first / second variable, true / false, -50, -1, 0, 2, 49
                  [] n = 3 -> {0, 2}
                  [] OTHER -> 0..(n - 1)
           ELSE CASE n = 10 -> {0, 1, 3, 4}
                  [] n = 100 -> {0, 50, 51}
                  [] n = 3 -> {0}
                  [] OTHER -> 0..(n - 1)

VARIABLES cfg, level, script
vars == <<cfg, level, script>>
Init == cfg \in Cfgs /\ level \in 0..MaxLevel /\ script = <<>>
Next == LET g == Gen(cfg, script, level) IN
        /\ g.st = "need"
        /\ \E c \in Reps(g.n) : script' = Append(script, c)
        /\ UNCHANGED <<cfg, level>>
Spec == Init /\ [][Next]_vars

G == Gen(cfg, script, level)
Finished == G.st = "done"
ReportsTruthInv == Finished => ReportsTruth(cfg, G.tree, G.res)
NeverFails == Finished => (G.res.t \in {"b", "i", "d"} /\
                           (VarsOf(G.tree) \cap DneNames(cfg) = {} => Ok(Den(G.tree, Env(cfg)))))
Compiles == Finished => OnlyGivenVars(cfg, G.tree)
UsesWholeScript == Finished => G.p = Len(script) + 1
=============================================================================
