---------------------------- MODULE RegistryInd ----------------------------
(***************************************************************************)
(* Property C11, key allocation, as an INDUCTIVE invariant discharged by   *)
(* Apalache for histories of any length and keys over all of Int:          *)
(*    IndInit => IndInv                    (length 0)                      *)
(*    IndInv /\ Next => IndInv'            (length 1)                      *)
(* IndInit is "any injective key map whatsoever" (caller-assigned keys may *)
(* be negative, huge, have gaps), so the step covers every state a real    *)
(* Config can be in.  Names are a finite set of interchangeable atoms      *)
(* (the allocation rule never looks at a name), here five.                 *)
(* The allocation rule is GetOrRegisterKey's (variable.go:47-66), written  *)
(* relationally: the key of a known name; otherwise the least k in         *)
(* 1..size+1 that no name holds (the code's loop over 1..size followed by  *)
(* size+1 -- by pigeonhole one of them is free).                           *)
(***************************************************************************)
EXTENDS Integers, FiniteSets

Names == {"a", "b", "c", "d", "e"}
MaxN == 5

VARIABLES
  \* @type: Str -> Int;
  km,
  \* @type: Str -> Int;
  prev,
  \* @type: Str;
  lastName,
  \* @type: Int;
  lastKey

\* @type: (Str -> Int) => Set(Int);
Keys(f) == {f[n] : n \in DOMAIN f}
\* @type: (Str -> Int) => Bool;
Injective(f) == \A a \in DOMAIN f : \A b \in DOMAIN f : f[a] = f[b] => a = b
\* @type: (Str -> Int, Str -> Int) => Bool;
Extends(f, g) == DOMAIN f \subseteq DOMAIN g /\ \A n \in DOMAIN f : g[n] = f[n]

\* k is what GetOrRegisterKey hands out for a new name on key map f
\* @type: (Str -> Int, Int) => Bool;
IsFirstFree(f, k) ==
  /\ k >= 1 /\ k <= Cardinality(DOMAIN f) + 1
  /\ k \notin Keys(f)
  /\ \A j \in 1..(MaxN + 1) : j < k => j \in Keys(f)

Reg(n) ==
  IF n \in DOMAIN km
  THEN /\ km' = km /\ prev' = km /\ lastName' = n /\ lastKey' = km[n]
  ELSE \E k \in 1..(MaxN + 1) :
         /\ IsFirstFree(km, k)
         /\ km' = [m \in DOMAIN km \cup {n} |-> IF m = n THEN k ELSE km[m]]
         /\ prev' = km /\ lastName' = n /\ lastKey' = k

Next == \E n \in Names : Reg(n)

\* (written as membership so that Apalache can also use it as an initial-state predicate)
TypeOK == /\ \E D \in SUBSET Names : km \in [D -> Int]
          /\ \E D \in SUBSET Names : prev \in [D -> Int]
          /\ lastName \in Names /\ lastKey \in Int

IndInv ==
  /\ TypeOK
  /\ Injective(km)                          \* never one key for two names
  /\ Extends(prev, km)                      \* never changes an existing assignment
  /\ lastName \in DOMAIN km /\ km[lastName] = lastKey                 \* returns the recorded key
  /\ (lastName \in DOMAIN prev => km = prev)                          \* idempotent
  /\ (lastName \notin DOMAIN prev => (lastKey \notin Keys(prev) /\ lastKey >= 1))   \* fresh, positive

\* any injective map over any subset of the names with ANY integer keys, reached by any step
IndInit ==
  /\ \E D \in SUBSET Names : km \in [D -> Int]
  /\ Injective(km)
  /\ lastName \in DOMAIN km /\ lastKey = km[lastName]
  /\ prev = km

\* progress: a new name always gets a key (the rule is total): some k is first-free
Total == \E k \in 1..(MaxN + 1) : IsFirstFree(km, k)
=============================================================================
