-------------------------------- MODULE Lexer --------------------------------
(***************************************************************************)
(* The lexer of parser.go:76-227 over MODEL CHARACTERS.  A text is a       *)
(* sequence of model characters; a model character is a short string that  *)
(* stands for exactly one rune (the harness owns the table):               *)
(*   "(" ")" "[" "]" "," ";"   delimiters        "Q"  the double quote     *)
(*   "SP" "TAB" "NBSP" "IDSP" "CR"  Unicode spaces   "NL"  line feed       *)
(*   "a".."z" "A".."Z" letters             "Eacute"  a non-ASCII letter    *)
(*   "Agrave" "Aring" "Ni": non-ASCII letters whose UTF-8 encodings contain  *)
(*   the bytes A0 / 85 (as code points: no-break space, next line)          *)
(*   "0".."9" digits   "-" "+" signs   "." "_" "!"                         *)
(*   "<" "=" ">" "&" "|" "*" "/" "%"  operator characters                  *)
(*   "BS" backslash, "CTL" a control character, "U" any other rune         *)
(* Tokens are [ty, tx]: ty in lParen rParen lBracket rBracket comma        *)
(* comment str integer ident; tx the token text as model characters (for   *)
(* str: without the quotes, as the real token value).                      *)
(***************************************************************************)
EXTENDS Integers, Sequences, FiniteSets, TLC

Spaces == {"SP", "TAB", "NBSP", "IDSP", "CR", "NL"}
IsSpace(c) == c \in Spaces
Delims == {"(", ")", "[", "]", ";", ","}
Letters == {"a", "b", "c", "d", "e", "f", "g", "h", "i", "j", "k", "l", "m", "n", "o", "p", "q", "r", "s", "t",
            "u", "v", "w", "x", "y", "z",
            "A", "B", "C", "D", "E", "F", "G", "H", "I", "J", "K", "L", "M", "N", "O", "P", "Q_", "R", "S", "T", "U_", "V", "W", "X", "Y", "Z",
            "Eacute", "Agrave", "Aring", "Ni"}
Digits == {"0", "1", "2", "3", "4", "5", "6", "7", "8", "9"}
OpChars == {"<", "=", ">", "&", "|", "*", "/", "%", "!", "+", "-"}

\* spellings of the built-in operators that contain a special character
SymbolOps == {<<"+">>, <<"-">>, <<"*">>, <<"/">>, <<"%">>, <<"&">>, <<"|">>, <<"!">>, <<"=">>, <<"!", "=">>,
              <<">">>, <<"<">>, <<">", "=">>, <<"<", "=">>, <<"=", "=">>, <<"&", "&">>, <<"|", "|">>}

\* strconv.ParseInt(s, 10, 64) succeeds: optional sign, then one or more digits
\* (range is not modelled: model integers are short)
IsValidInt(tx) ==
  LET body == IF Len(tx) >= 1 /\ tx[1] \in {"-", "+"} THEN Tail(tx) ELSE tx IN
  Len(body) >= 1 /\ \A k \in 1..Len(body) : body[k] \in Digits

\* isValidIdent (parser.go:140-172): letters, `_`, digits except in first position,
\* inner non-consecutive dots; at the first other character the answer is "is the whole
\* token a built-in operator name"
IsValidIdent(tx) ==
  LET n == Len(tx)
      RECURSIVE go(_, _)
      go(i, prevDot) ==
        IF i > n THEN TRUE
        ELSE LET r == tx[i] IN
             IF r \in Letters \/ r = "_" THEN go(i + 1, prevDot)
             ELSE IF r \in Digits /\ i # 1 THEN go(i + 1, prevDot)
             ELSE IF r = "." THEN (IF i = prevDot + 1 \/ i = 1 \/ i = n THEN FALSE ELSE go(i + 1, i))
             ELSE tx \in SymbolOps
  IN go(1, 0)

\* nextToken: returns [kind, tx, next] with kind in "eof" "tok" "cmt" "str" "unclosed"
NextToken(s, i0) ==
  LET n == Len(s)
      RECURSIVE skip(_)
      skip(i) == IF i <= n /\ IsSpace(s[i]) THEN skip(i + 1) ELSE i
      st == skip(i0)
  IN IF st > n THEN [kind |-> "eof", tx |-> <<>>, next |-> n + 1]
     ELSE IF s[st] = ";" THEN
            LET RECURSIVE endc(_)
                endc(j) == IF j > n \/ s[j] = "NL" THEN j ELSE endc(j + 1)
                e == endc(st)
            IN [kind |-> "cmt", tx |-> SubSeq(s, st, e - 1), next |-> e]
     ELSE IF s[st] = "Q" THEN
            LET RECURSIVE endq(_)
                endq(j) == IF j > n THEN 0 ELSE IF s[j] = "Q" THEN j ELSE endq(j + 1)
                e == endq(st + 1)
            IN IF e = 0 THEN [kind |-> "unclosed", tx |-> <<>>, next |-> n + 1]
               ELSE [kind |-> "str", tx |-> SubSeq(s, st + 1, e - 1), next |-> e + 1]
     ELSE LET RECURSIVE endt(_)
              endt(j) == IF j > n \/ IsSpace(s[j]) \/ s[j] \in Delims THEN j ELSE endt(j + 1)
              e0 == endt(st)
              e == IF e0 = st THEN st + 1 ELSE e0      \* a single delimiter character
          IN [kind |-> "tok", tx |-> SubSeq(s, st, e - 1), next |-> e]

Tok(ty, tx) == [ty |-> ty, tx |-> tx]

\* Lex(s, infix): [err |-> BOOLEAN, toks |-> tokens lexed before the error]
Lex(s, infix) ==
  LET RECURSIVE go(_, _)
      go(i, acc) ==
        LET t == NextToken(s, i) IN
        CASE t.kind = "eof" -> [err |-> FALSE, toks |-> acc]
          [] t.kind = "unclosed" -> [err |-> TRUE, toks |-> acc]
          [] t.kind = "cmt" -> go(t.next, Append(acc, Tok("comment", t.tx)))
          [] t.kind = "str" -> go(t.next, Append(acc, Tok("str", t.tx)))
          [] OTHER ->
             LET tx == t.tx IN
             \* infix: `!ident` is split into `!` and the identifier (parser.go:185-196)
             IF infix /\ tx[1] = "!" /\ IsValidIdent(tx) THEN go(t.next, Append(acc, Tok("ident", tx)))
             ELSE IF infix /\ tx[1] = "!" /\ Len(tx) > 1 /\ IsValidIdent(Tail(tx))
                  THEN go(t.next, Append(Append(acc, Tok("ident", <<"!">>)), Tok("ident", Tail(tx))))
             ELSE IF tx = <<"(">> THEN go(t.next, Append(acc, Tok("lParen", tx)))
             ELSE IF tx = <<")">> THEN go(t.next, Append(acc, Tok("rParen", tx)))
             ELSE IF tx = <<"[">> THEN go(t.next, Append(acc, Tok("lBracket", tx)))
             ELSE IF tx = <<"]">> THEN go(t.next, Append(acc, Tok("rBracket", tx)))
             ELSE IF tx = <<",">> THEN go(t.next, Append(acc, Tok("comma", tx)))
             ELSE IF IsValidInt(tx) THEN go(t.next, Append(acc, Tok("integer", tx)))
             ELSE IF IsValidIdent(tx) THEN go(t.next, Append(acc, Tok("ident", tx)))
             ELSE [err |-> TRUE, toks |-> acc]
  IN go(1, <<>>)

\* comments are compared with surrounding white space trimmed (parseConfig trims too)
RECURSIVE TrimR(_)
TrimR(t) == IF t # <<>> /\ IsSpace(t[Len(t)]) THEN TrimR(SubSeq(t, 1, Len(t) - 1)) ELSE t
RECURSIVE TrimL(_)
TrimL(t) == IF t # <<>> /\ IsSpace(t[1]) THEN TrimL(Tail(t)) ELSE t
NormTok(t) == IF t.ty = "comment" THEN [t EXCEPT !.tx = TrimR(t.tx)] ELSE t
Norm(r) == [err |-> r.err, toks |-> [k \in 1..Len(r.toks) |-> NormTok(r.toks[k])]]
NoComments(toks) == SelectSeq(toks, LAMBDA t : t.ty # "comment")
SameTokens(a, b) == Norm(a) = Norm(b)
=============================================================================
