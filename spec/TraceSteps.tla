----------------------------- MODULE TraceSteps -----------------------------
(***************************************************************************)
(* Step-level trace validation of the two evaluator machines.              *)
(*                                                                         *)
(* The real engine, compiled in Debug / ReportEvent mode, emits one LOOP   *)
(* event per loop iteration (program position + a copy of the operand      *)
(* stack) and one OP_EXEC event per operator application; the harness'     *)
(* instrumented fetcher and operators log every fetch and every call.      *)
(* That stream is the engine's own step trace.  Here it is replayed        *)
(* against Machine!EvalNext / Machine!TryNext -- the very actions MCEval   *)
(* and MCTry take as their next-state relation -- ONE MACHINE STEP PER TLC *)
(* STATE, on the flat program exported from the real compiler:             *)
(*                                                                         *)
(*   MStep  is enabled with s' = EvalNext(prog, env, s) and requires that  *)
(*          every event and every effect the step appends is exactly the   *)
(*          next event / effect of the recorded stream (LOOP: position and *)
(*          whole stack; OP_EXEC: name, arguments, result, fast flag;      *)
(*          fetch: name; call: name, arguments, result);                   *)
(*   EndEval requires that nothing of the stream is left over and that the  *)
(*          machine's result is the recorded result.                       *)
(*                                                                         *)
(* A step that does not conform ends that evaluation's replay with a       *)
(* DRIFT line naming the longest matched prefix (no counterexample is      *)
(* needed: the last matched state and the next recorded event are the      *)
(* diagnosis).  Disagreement here means the implementation-shaped machine  *)
(* no longer describes the engine's loop; the property-level verdicts are  *)
(* JudgeEvents' / JudgeEval's.  Agreement is what transfers the invariants *)
(* model-checked on EvalNext / TryNext (NoPanic, StackSafe, PcMonotone,    *)
(* EvalRefinesDen, EffectsExact, Sound, Informative) to the engine's loop. *)
(***************************************************************************)
EXTENDS Machine, Json, IOUtils

Trace == ndJsonDeserialize(IOEnv.OBS)
VARIABLES l, ri, ph, s, steps, evals, drifts, cov
vars == <<l, ri, ph, s, steps, evals, drifts, cov>>

RECURSIVE Mentions(_, _)
Mentions(t, nm) == (t.k # "c" /\ t.v = nm) \/ \E i \in 1..Len(t.kids) : Mentions(t.kids[i], nm)
ParamsEq(a, b) == Len(a) = Len(b) /\ \A i \in 1..Len(a) : VEq(a[i], b[i])
ToSet(q) == {q[i] : i \in 1..Len(q)}

\* records whose stream can be replayed: both compilations succeeded, the program was
\* exported, and no operator whose result depends on earlier calls / that panics
Usable(r) == /\ r.fam = "events" /\ r.off.cout = "ok" /\ r.on.cout = "ok" /\ r.on.hasprog
             /\ Len(r.runs) > 0 /\ ~Mentions(r.tree, "h") /\ ~Mentions(r.tree, "boom")

Obs(r) == IF ph = "eval" THEN r.runs[ri].sync ELSE r.runs[ri].tryon
Env(r) == r.envs[r.runs[ri].e]

EvConforms(m, o) ==
  /\ m.k = o.k
  /\ m.k = "loop" => (m.pos = o.pos /\ ParamsEq(m.stack, o.stack))
  /\ m.k = "op" => (m.n = o.n /\ ParamsEq(m.ps, o.ps) /\ OutcomeEq(m.r, o.r) /\ m.fast = o.fast)
EffConforms(m, o) ==
  /\ m.k = o.k /\ m.n = o.n
  /\ m.k = "call" => (ParamsEq(m.ps, o.ps) /\ OutcomeEq(m.r, o.r))

\* everything the step s -> s2 appended is the next part of the recorded stream
StepConforms(s1, s2, o) ==
  /\ Len(s2.out) <= Len(o.evs) /\ Len(s2.eff) <= Len(o.eff)
  /\ \A i \in (Len(s1.out) + 1)..Len(s2.out) : EvConforms(s2.out[i], o.evs[i])
  /\ \A i \in (Len(s1.eff) + 1)..Len(s2.eff) : EffConforms(s2.eff[i], o.eff[i])
  /\ s2.st \in {"run", "done"}

EndConforms(s1, o) ==
  /\ s1.st = "done" /\ Len(s1.out) = Len(o.evs) /\ Len(s1.eff) = Len(o.eff)
  /\ ~IsPanic(o.res) /\ OutcomeEq(s1.res, o.res)

None == [st |-> "none"]
\* which arms of the machines the replayed steps went through (vacuity accounting): by node type, plus the steps that
\* took a short-circuit jump / climbed (pc moved by more than the node's own width) and the steps that ended the run
Arms == {"c", "v", "f", "o", "if", "fi", "ev", "jump", "end", "finish"}
ArmsOf(prog, s1, s2) ==
  IF s1.pc > Len(prog.nodes) THEN {"finish"}
  ELSE LET ty == prog.nodes[s1.pc].ty IN
       {ty} \cup (IF s2.st = "run" /\ s2.pc > s1.pc + (IF ty = "f" THEN 3 ELSE 1) THEN {"jump"} ELSE {})
            \cup (IF s2.st # "run" THEN {"end"} ELSE {})
Init == l = 1 /\ ri = 1 /\ ph = "start" /\ s = None /\ steps = 0 /\ evals = 0 /\ drifts = 0 /\ cov = [a \in Arms |-> 0]

\* what comes after the evaluation (l, ri, ph)
Advance(r) ==
  IF ph = "eval" THEN /\ ph' = "try" /\ s' = InitState(r.on.prog, 0) /\ UNCHANGED <<l, ri>>
  ELSE IF ri < Len(r.runs) THEN /\ ph' = "eval" /\ ri' = ri + 1 /\ s' = InitState(r.on.prog, 0) /\ UNCHANGED l
  ELSE /\ ph' = "start" /\ ri' = 1 /\ s' = None /\ l' = l + 1

SkipRecord == /\ l <= Len(Trace) /\ ph = "start" /\ ~Usable(Trace[l])
              /\ l' = l + 1 /\ UNCHANGED <<ri, ph, s, steps, evals, drifts, cov>>
Begin == /\ l <= Len(Trace) /\ ph = "start" /\ Usable(Trace[l])
         /\ ph' = "eval" /\ ri' = 1 /\ s' = InitState(Trace[l].on.prog, 0)
         /\ UNCHANGED <<l, steps, evals, drifts, cov>>
MStep ==
  /\ l <= Len(Trace) /\ ph \in {"eval", "try"} /\ s.st = "run"
  /\ LET r == Trace[l]
         o == Obs(r)
         s2 == IF ph = "eval" THEN EvalNext(r.on.prog, Env(r), s, TRUE, TRUE)
               ELSE TryNext(r.on.prog, Env(r), ToSet(r.runs[ri].av), s, TRUE, TRUE)
     IN IF StepConforms(s, s2, o)
        THEN /\ s' = s2 /\ steps' = steps + 1 /\ UNCHANGED <<l, ri, ph, evals, drifts>>
             /\ cov' = [a \in Arms |-> IF a \in ArmsOf(r.on.prog, s, s2) THEN cov[a] + 1 ELSE cov[a]]
        ELSE /\ PrintT(<<"DRIFT", r.id, ri, "step-trace:" \o ph>>)
             /\ PrintT(<<"N", "step_trace_longest_prefix_before_drift", Len(s.out)>>)
             /\ drifts' = drifts + 1 /\ evals' = evals + 1 /\ steps' = steps /\ cov' = cov
             /\ Advance(r)
EndEval ==
  /\ l <= Len(Trace) /\ ph \in {"eval", "try"} /\ s.st # "run"
  /\ LET r == Trace[l]
         o == Obs(r)
     IN /\ IF EndConforms(s, o) THEN drifts' = drifts
           ELSE /\ PrintT(<<"DRIFT", r.id, ri, "step-trace-end:" \o ph>>) /\ drifts' = drifts + 1
        /\ evals' = evals + 1 /\ steps' = steps /\ cov' = cov
        /\ Advance(r)
Next == SkipRecord \/ Begin \/ MStep \/ EndEval
Spec == Init /\ [][Next]_vars

\* the machine invariants hold in every state of every replayed execution
StackSafe == s.st = "none" \/ (s.top >= 0 /\ s.top <= Len(s.os))
PcMonotone == [][(s.st = "run" /\ s'.st = "run" /\ ph' = ph /\ ri' = ri /\ l' = l /\ ph # "start") => s'.pc > s.pc]_vars

Done == l = Len(Trace) + 1 =>
          /\ PrintT(<<"N", "step_trace_machine_steps", steps>>)
          /\ PrintT(<<"N", "step_trace_evaluations", evals>>)
          /\ \A a \in Arms : PrintT(<<"N", "step_trace_steps_through_arm_" \o a, cov[a]>>)
          /\ PrintT(<<"SUMMARY", l - 1, 0, 0, 0, evals, drifts>>)
=============================================================================
