------------------------------ MODULE Formatter ------------------------------
(***************************************************************************)
(* IndentByParentheses (util.go:290-398) as the character-level machine it *)
(* is: cursor i, previous syntax class `prev`, `indent`, output.           *)
(* stringAware = TRUE: a double quote starts a literal that is copied      *)
(* verbatim up to the closing quote (the behaviour property C14 needs);    *)
(* stringAware = FALSE is the pinned code before the fix, which rewrites   *)
(* white space and brackets inside string literals (finding F-C14-1).      *)
(***************************************************************************)
EXTENDS Lexer

Rep(c, k) == [j \in 1..(IF k > 0 THEN k ELSE 0) |-> c]
Indent(k) == Rep("SP", 2 * k)

RECURSIVE FmtFrom(_, _, _, _, _, _)
FmtFrom(s, i, prev, ind, out, stringAware) ==
  LET n == Len(s) IN
  IF i > n THEN out
  ELSE LET c == s[i] IN
    IF c \in {"(", "["} THEN
       FmtFrom(s, i + 1, "left", ind + 1,
               out \o (IF prev = "cmt" THEN Indent(ind) ELSE <<"NL">> \o Indent(ind)) \o <<c>>, stringAware)
    ELSE IF c \in {")", "]"} THEN
       FmtFrom(s, i + 1, "right", ind - 1,
               out \o (IF prev = "cmt" THEN Indent(ind - 1) ELSE <<>>) \o <<c>>, stringAware)
    ELSE IF IsSpace(c) THEN FmtFrom(s, i + 1, IF prev = "cmt" THEN prev ELSE "space", ind, out, stringAware)
    ELSE IF c = ";" THEN
       LET RECURSIVE back(_)
           back(j) == IF j < 1 THEN <<>>
                      ELSE IF ~IsSpace(s[j]) THEN <<"SP">>
                      ELSE IF s[j] = "NL" THEN <<"NL">> \o Indent(ind)
                      ELSE back(j - 1)
           pre == IF prev = "cmt" THEN Indent(ind) ELSE back(i - 1)
           RECURSIVE endc(_)
           endc(j) == IF j > n THEN n ELSE IF s[j] = "NL" THEN j ELSE endc(j + 1)
           e == endc(i)
       IN FmtFrom(s, e + 1, "cmt", ind, out \o pre \o SubSeq(s, i, e), stringAware)
    ELSE LET lead == (IF prev = "cmt" THEN Indent(ind) ELSE <<>>)
                     \o (IF prev \in {"space", "right"} THEN <<"SP">> ELSE <<>>)
         IN IF stringAware /\ c = "Q"
            THEN LET RECURSIVE endq(_)
                     endq(j) == IF j > n THEN n ELSE IF s[j] = "Q" THEN j ELSE endq(j + 1)
                     e == endq(i + 1)
                 IN FmtFrom(s, e + 1, "normal", ind, out \o lead \o SubSeq(s, i, e), stringAware)
            ELSE FmtFrom(s, i + 1, "normal", ind, out \o lead \o <<c>>, stringAware)

Format(s, stringAware) == TrimL(TrimR(FmtFrom(s, 1, "normal", 0, <<>>, stringAware)))

\* C14: formatting never changes the tokens or the comments, for ANY input
FormatterPreserves(s, stringAware) == SameTokens(Lex(Format(s, stringAware), FALSE), Lex(s, FALSE))
=============================================================================
