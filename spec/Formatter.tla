------------------------------ MODULE Formatter ------------------------------
(***************************************************************************)
(* IndentByParentheses (util.go:290-398) as the character-level machine it *)
(* is: cursor i, previous syntax class `prev`, `indent`, output.           *)
(* stringAware = TRUE: a double quote starts a literal that is copied      *)
(* verbatim up to the closing quote (the behaviour property C14 needs);    *)
(* stringAware = FALSE is the pinned code before the fix, which rewrites   *)
(* white space and brackets inside string literals (finding F-C14-1).      *)
(***************************************************************************)
EXTENDS Lexer

Rep(c, k) == [j \in 1..(IF k > 0 THEN k ELSE 0) |-> c]
Indent(k) == Rep("SP", 2 * k)

\* one iteration of the formatter's loop: state st = [i, prev, ind, out] (cursor, previous syntax class, indentation
\* level, output so far); every arm moves the cursor forward
FmtStep(s, st, stringAware) ==
  LET n == Len(s)  i == st.i  prev == st.prev  ind == st.ind  out == st.out  c == s[i] IN
    IF c \in {"(", "["} THEN
       [i |-> i + 1, prev |-> "left", ind |-> ind + 1,
        out |-> out \o (IF prev = "cmt" THEN Indent(ind) ELSE <<"NL">> \o Indent(ind)) \o <<c>>]
    ELSE IF c \in {")", "]"} THEN
       [i |-> i + 1, prev |-> "right", ind |-> ind - 1,
        out |-> out \o (IF prev = "cmt" THEN Indent(ind - 1) ELSE <<>>) \o <<c>>]
    ELSE IF IsSpace(c) THEN [i |-> i + 1, prev |-> (IF prev = "cmt" THEN prev ELSE "space"), ind |-> ind, out |-> out]
    ELSE IF c = ";" THEN
       LET RECURSIVE back(_)
           back(j) == IF j < 1 THEN <<>>
                      ELSE IF ~IsSpace(s[j]) THEN <<"SP">>
                      ELSE IF s[j] = "NL" THEN <<"NL">> \o Indent(ind)
                      ELSE back(j - 1)
           pre == IF prev = "cmt" THEN Indent(ind) ELSE back(i - 1)
           RECURSIVE endc(_)
           endc(j) == IF j > n THEN n ELSE IF s[j] = "NL" THEN j ELSE endc(j + 1)
           e == endc(i)
       IN [i |-> e + 1, prev |-> "cmt", ind |-> ind, out |-> out \o pre \o SubSeq(s, i, e)]
    ELSE LET lead == (IF prev = "cmt" THEN Indent(ind) ELSE <<>>)
                     \o (IF prev \in {"space", "right"} THEN <<"SP">> ELSE <<>>)
         IN IF stringAware /\ c = "Q"
            THEN LET RECURSIVE endq(_)
                     endq(j) == IF j > n THEN n ELSE IF s[j] = "Q" THEN j ELSE endq(j + 1)
                     e == endq(i + 1)
                 IN [i |-> e + 1, prev |-> "normal", ind |-> ind, out |-> out \o lead \o SubSeq(s, i, e)]
            ELSE [i |-> i + 1, prev |-> "normal", ind |-> ind, out |-> out \o lead \o <<c>>]

FmtInit == [i |-> 1, prev |-> "normal", ind |-> 0, out |-> <<>>]
RECURSIVE FmtRun(_, _, _)
FmtRun(s, st, stringAware) == IF st.i > Len(s) THEN st.out ELSE FmtRun(s, FmtStep(s, st, stringAware), stringAware)
FmtFrom(s, i, prev, ind, out, stringAware) == FmtRun(s, [i |-> i, prev |-> prev, ind |-> ind, out |-> out], stringAware)

Format(s, stringAware) == TrimL(TrimR(FmtFrom(s, 1, "normal", 0, <<>>, stringAware)))

\* C14: formatting never changes the tokens or the comments, for ANY input
FormatterPreserves(s, stringAware) == SameTokens(Lex(Format(s, stringAware), FALSE), Lex(s, FALSE))
=============================================================================
