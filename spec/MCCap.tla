-------------------------------- MODULE MCCap --------------------------------
(***************************************************************************)
(* Model check of property C09 with scaled-down limits (cfg overrides:     *)
(* Small <- 2, Medium <- 4, limits maxKids = 3, maxNodes = 13): every      *)
(* family instance around the limits, every option subset, events on/off,  *)
(* every binding.  ClosedFormsExact ties Capacity.tla's formulas to the    *)
(* model; RejectOrCorrect, StackSafe, MaxStackIsBound, NoWrap are C09.     *)
(***************************************************************************)
EXTENDS Capacity

CONSTANT AsBuilt
MCSmall == 2
MCMedium == 4
Lim == [maxKids |-> 3, maxNodes |-> 13]

Descs == {[fam |-> f, op |-> o, a |-> a, b |-> 0] : f \in {"fan"}, o \in {"+", "and"}, a \in 2..5}
         \cup {[fam |-> "nestfan", op |-> o, a |-> a, b |-> b] : o \in {"and", "or"}, a \in 2..3, b \in 2..3}
         \cup {[fam |-> f, op |-> o, a |-> a, b |-> 0] : f \in {"chainR", "chainL"}, o \in {"+", "and"}, a \in 1..7}
         \cup {[fam |-> "chainZ", op |-> "+", a |-> a, b |-> 0] : a \in 1..6}
         \cup {[fam |-> "cmpfan2", op |-> "and", a |-> a, b |-> b] : a \in 2..3, b \in 2..3}
         \cup {[fam |-> "chainR3", op |-> "+", a |-> a, b |-> 0] : a \in 1..5}
         \cup {[fam |-> "fanchain", op |-> "+", a |-> a, b |-> b] : a \in 1..3, b \in 1..4}
         \cup {[fam |-> "cmpfan", op |-> o, a |-> a, b |-> 0] : o \in {"and", "or"}, a \in 2..5}
         \cup {[fam |-> "ifchain", op |-> "+", a |-> a, b |-> 0] : a \in 0..3}
Envs == {[x |-> B(bx), n |-> I(nn)] : bx \in BOOLEAN, nn \in {1, 2}}

VARIABLES desc, mask, events, env, T, L, s, cout
vars == <<desc, mask, events, env, T, L, s, cout>>
Init == /\ desc \in Descs /\ mask = AllOff /\ events = FALSE /\ env = [x |-> B(TRUE), n |-> I(1)]
        /\ T = Build(desc) /\ L = <<>> /\ s = [st |-> "cfg"] /\ cout = "none"
Configure == /\ s.st = "cfg"
             /\ mask' \in Masks /\ events' \in BOOLEAN /\ env' \in Envs
             /\ T' = Optimize(Build(desc), mask', DefaultCfg)
             /\ cout' = CompileOutcome(T', Lim, events', AsBuilt)
             /\ L' = IF cout' = "ok" THEN (IF events' THEN AddEvents(Layout(T')) ELSE Layout(T')) ELSE <<>>
             /\ s' = IF cout' = "ok" THEN InitState(L', 0) ELSE [st |-> "rejected"]
             /\ UNCHANGED desc
StepM == /\ s.st = "run"
         /\ s' = EvalNext(L, env, s, events, TRUE)
         /\ UNCHANGED <<desc, mask, events, env, T, L, cout>>
Next == Configure \/ StepM
Spec == Init /\ [][Next]_vars

RECURSIVE WidestOf(_)
WidestOf(t) == LET n == IF t.k = "if" THEN 4 ELSE Len(t.kids)
                   RECURSIVE mx(_, _)
                   mx(i, acc) == IF i > Len(t.kids) THEN acc ELSE mx(i + 1, Max2(acc, WidestOf(t.kids[i])))
               IN mx(1, n)

\* the closed forms agree with the model
ClosedFormsExact ==
  s.st = "cfg" \/ (/\ Size(T) = NodesOf(desc, mask)
                   /\ WidestOf(T) = KidsOf(desc, mask)
                   /\ (cout = "ok") = (Outcome(desc, mask, events, Lim, AsBuilt) = "ok")
                   /\ (cout \in {"err:kids", "err:nodes"}) = (Outcome(desc, mask, events, Lim, AsBuilt) = "err"))
\* never a panic: Compile answers with a program or an error
NoCompilePanic == cout # "panic:makeslice"
NoPanic == s.st \in {"cfg", "run", "done", "rejected"}
\* a program that was accepted evaluates to the reference value
RejectOrCorrect == s.st = "done" => OutcomeEq(s.res, ValueOf(desc, env)) /\ OutcomeEq(s.res, Den(Build(desc), env))
\* the operand stack the evaluator allocates is always large enough
StackSafe == s.st \in {"run", "done"} => (s.top >= 0 /\ s.top <= Alloc(L.max, Len(L.nodes)) /\ s.top <= Len(s.os))
MaxStackIsBound == s.st \in {"run", "done"} => s.hw <= L.max
\* no narrow field is assigned a value outside its range
NoWrap == s.st \in {"run", "done"} =>
            /\ Len(L.nodes) <= Lim.maxNodes
            /\ \A i \in 1..Len(L.nodes) : L.nodes[i].cc <= Lim.maxKids + 1 /\ L.nodes[i].sc <= Len(L.nodes) /\ L.nodes[i].top <= L.max
PcMonotone == [][(s.st = "run" /\ s'.st = "run") => s'.pc > s.pc]_vars
=============================================================================
