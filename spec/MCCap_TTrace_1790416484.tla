---- MODULE MCCap_TTrace_1790416484 ----
EXTENDS MCCap, Sequences, TLCExt, Toolbox, Naturals, TLC

_expression ==
    LET MCCap_TEExpression == INSTANCE MCCap_TEExpression
    IN MCCap_TEExpression!expression
----

_trace ==
    LET MCCap_TETrace == INSTANCE MCCap_TETrace
    IN MCCap_TETrace!trace
----

_inv ==
    ~(
        TLCGet("level") = Len(_TETrace)
        /\
        s = ([st |-> "rejected"])
        /\
        T = ([k |-> "o", kids |-> <<[k |-> "o", kids |-> <<[k |-> "v", kids |-> <<>>, v |-> "x"], [k |-> "v", kids |-> <<>>, v |-> "x"]>>, v |-> "and"], [k |-> "o", kids |-> <<[k |-> "v", kids |-> <<>>, v |-> "x"], [k |-> "v", kids |-> <<>>, v |-> "x"]>>, v |-> "and"]>>, v |-> "and"])
        /\
        cout = ("panic:makeslice")
        /\
        L = (<<>>)
        /\
        env = ([x |-> [t |-> "b", v |-> FALSE], n |-> [t |-> "i", v |-> 1]])
        /\
        events = (TRUE)
        /\
        desc = ([fam |-> "nestfan", op |-> "and", a |-> 2, b |-> 2])
        /\
        mask = ([rn |-> FALSE, cf |-> FALSE, fe |-> FALSE, ro |-> FALSE])
    )
----

_init ==
    /\ L = _TETrace[1].L
    /\ T = _TETrace[1].T
    /\ env = _TETrace[1].env
    /\ s = _TETrace[1].s
    /\ cout = _TETrace[1].cout
    /\ desc = _TETrace[1].desc
    /\ events = _TETrace[1].events
    /\ mask = _TETrace[1].mask
----

_next ==
    /\ \E i,j \in DOMAIN _TETrace:
        /\ \/ /\ j = i + 1
              /\ i = TLCGet("level")
        /\ L  = _TETrace[i].L
        /\ L' = _TETrace[j].L
        /\ T  = _TETrace[i].T
        /\ T' = _TETrace[j].T
        /\ env  = _TETrace[i].env
        /\ env' = _TETrace[j].env
        /\ s  = _TETrace[i].s
        /\ s' = _TETrace[j].s
        /\ cout  = _TETrace[i].cout
        /\ cout' = _TETrace[j].cout
        /\ desc  = _TETrace[i].desc
        /\ desc' = _TETrace[j].desc
        /\ events  = _TETrace[i].events
        /\ events' = _TETrace[j].events
        /\ mask  = _TETrace[i].mask
        /\ mask' = _TETrace[j].mask

\* Uncomment the ASSUME below to write the states of the error trace
\* to the given file in Json format. Note that you can pass any tuple
\* to `JsonSerialize`. For example, a sub-sequence of _TETrace.
    \* ASSUME
    \*     LET J == INSTANCE Json
    \*         IN J!JsonSerialize("MCCap_TTrace_1790416484.json", _TETrace)

=============================================================================

 Note that you can extract this module `MCCap_TEExpression`
  to a dedicated file to reuse `expression` (the module in the 
  dedicated `MCCap_TEExpression.tla` file takes precedence 
  over the module `MCCap_TEExpression` below).

---- MODULE MCCap_TEExpression ----
EXTENDS MCCap, Sequences, TLCExt, Toolbox, Naturals, TLC

expression == 
    [
        \* To hide variables of the `MCCap` spec from the error trace,
        \* remove the variables below.  The trace will be written in the order
        \* of the fields of this record.
        L |-> L
        ,T |-> T
        ,env |-> env
        ,s |-> s
        ,cout |-> cout
        ,desc |-> desc
        ,events |-> events
        ,mask |-> mask
        
        \* Put additional constant-, state-, and action-level expressions here:
        \* ,_stateNumber |-> _TEPosition
        \* ,_LUnchanged |-> L = L'
        
        \* Format the `L` variable as Json value.
        \* ,_LJson |->
        \*     LET J == INSTANCE Json
        \*     IN J!ToJson(L)
        
        \* Lastly, you may build expressions over arbitrary sets of states by
        \* leveraging the _TETrace operator.  For example, this is how to
        \* count the number of times a spec variable changed up to the current
        \* state in the trace.
        \* ,_LModCount |->
        \*     LET F[s \in DOMAIN _TETrace] ==
        \*         IF s = 1 THEN 0
        \*         ELSE IF _TETrace[s].L # _TETrace[s-1].L
        \*             THEN 1 + F[s-1] ELSE F[s-1]
        \*     IN F[_TEPosition - 1]
    ]

=============================================================================



Parsing and semantic processing can take forever if the trace below is long.
 In this case, it is advised to uncomment the module below to deserialize the
 trace from a generated binary file.

\*
\*---- MODULE MCCap_TETrace ----
\*EXTENDS MCCap, IOUtils, TLC
\*
\*trace == IODeserialize("MCCap_TTrace_1790416484.bin", TRUE)
\*
\*=============================================================================
\*

---- MODULE MCCap_TETrace ----
EXTENDS MCCap, TLC

trace == 
    <<
    ([s |-> [st |-> "cfg"],T |-> [k |-> "o", kids |-> <<[k |-> "o", kids |-> <<[k |-> "v", kids |-> <<>>, v |-> "x"], [k |-> "v", kids |-> <<>>, v |-> "x"]>>, v |-> "and"], [k |-> "o", kids |-> <<[k |-> "v", kids |-> <<>>, v |-> "x"], [k |-> "v", kids |-> <<>>, v |-> "x"]>>, v |-> "and"]>>, v |-> "and"],cout |-> "none",L |-> <<>>,env |-> [x |-> [t |-> "b", v |-> TRUE], n |-> [t |-> "i", v |-> 1]],events |-> FALSE,desc |-> [fam |-> "nestfan", op |-> "and", a |-> 2, b |-> 2],mask |-> [rn |-> FALSE, cf |-> FALSE, fe |-> FALSE, ro |-> FALSE]]),
    ([s |-> [st |-> "rejected"],T |-> [k |-> "o", kids |-> <<[k |-> "o", kids |-> <<[k |-> "v", kids |-> <<>>, v |-> "x"], [k |-> "v", kids |-> <<>>, v |-> "x"]>>, v |-> "and"], [k |-> "o", kids |-> <<[k |-> "v", kids |-> <<>>, v |-> "x"], [k |-> "v", kids |-> <<>>, v |-> "x"]>>, v |-> "and"]>>, v |-> "and"],cout |-> "panic:makeslice",L |-> <<>>,env |-> [x |-> [t |-> "b", v |-> FALSE], n |-> [t |-> "i", v |-> 1]],events |-> TRUE,desc |-> [fam |-> "nestfan", op |-> "and", a |-> 2, b |-> 2],mask |-> [rn |-> FALSE, cf |-> FALSE, fe |-> FALSE, ro |-> FALSE]])
    >>
----


=============================================================================

---- CONFIG MCCap_TTrace_1790416484 ----
CONSTANTS
    AsBuilt = TRUE
    Small <- MCSmall
    Medium <- MCMedium

INVARIANT
    _inv

CHECK_DEADLOCK
    \* CHECK_DEADLOCK off because of PROPERTY or INVARIANT above.
    FALSE

INIT
    _init

NEXT
    _next

CONSTANT
    _TETrace <- _trace

ALIAS
    _expression
=============================================================================
\* Generated on Sat Sep 26 09:54:47 UTC 2026