------------------------------ MODULE Values ------------------------------
(***************************************************************************)
(* The value universe of onheap/eval as tagged records, so that values     *)
(* survive JSON in both directions and equality never compares TLA+ values *)
(* of different kinds (which is a TLC run-time error).                      *)
(*                                                                         *)
(*   [t |-> "b", v |-> BOOLEAN]      bool                                   *)
(*   [t |-> "i", v |-> Int]          int64 (TLC window; wide values: "w")   *)
(*   [t |-> "w", v |-> <<l7..l0>>]   int64 as eight 8-bit limbs (Int64.tla) *)
(*   [t |-> "s", v |-> STRING]       string                                 *)
(*   [t |-> "il", v |-> Seq(Int)]    []int64                                *)
(*   [t |-> "sl", v |-> Seq(STRING)] []string (the literal `()` is this)    *)
(*   [t |-> "is", v |-> Seq(Int)]    map[int64]struct{} (sorted, no dups)   *)
(*   [t |-> "ss", v |-> Seq(STRING)] map[string]struct{}                    *)
(*   [t |-> "d", v |-> "DNE"]        the DNE sentinel of TryEval            *)
(*   [t |-> "nil", v |-> "nil"]      Go nil (unbound slot of a slice ctx)   *)
(*   [t |-> "x", v |-> type name]    a Go value of a type the engine has no  *)
(*                                   case for (e.g. an int constant)         *)
(*   [t |-> "e", v |-> kind]         an error; kind is a string, see below  *)
(*   [t |-> "p", v |-> site]         a Go panic (only as-built deviations)  *)
(*                                                                         *)
(* Error kinds: "fetch:<var>" and "op:<name>" are sentinel errors raised   *)
(* by the harness' fetchers / registered operators (identity observable    *)
(* with errors.Is); "count", "type", "div0", "exec", "cond" are the        *)
(* classes of errors raised by built-in operators and the `if` node.       *)
(***************************************************************************)
EXTENDS Integers, Sequences, FiniteSets, TLC

B(b) == [t |-> "b", v |-> b]
I(i) == [t |-> "i", v |-> i]
S(s) == [t |-> "s", v |-> s]
IL(q) == [t |-> "il", v |-> q]
SL(q) == [t |-> "sl", v |-> q]
ISet(q) == [t |-> "is", v |-> q]
SSet(q) == [t |-> "ss", v |-> q]
E(k) == [t |-> "e", v |-> k]
Panic(site) == [t |-> "p", v |-> site]
DNE == [t |-> "d", v |-> "DNE"]
NIL == [t |-> "nil", v |-> "nil"]

IsErr(x) == x.t = "e"
IsPanic(x) == x.t = "p"
IsBool(x) == x.t = "b"
IsInt(x) == x.t = "i"
IsStr(x) == x.t = "s"
IsDNE(x) == x.t = "d"
IsList(x) == x.t \in {"il", "sl"}
IsSet(x) == x.t \in {"is", "ss"}
Ok(x) == x.t \notin {"e", "p"}
Definite(x) == x.t \notin {"e", "p", "d"}

\* Equality of tagged values.  Never compares payloads of different tags.
VEq(a, b) == a.t = b.t /\ a.v = b.v

\* Go's `==` on two interface values: same dynamic type and equal; comparing two
\* values of the same uncomparable type (slices, maps) panics at run time.
Uncomparable(x) == x.t \in {"il", "sl", "is", "ss"}
GoEqPanics(a, b) == a.t = b.t /\ Uncomparable(a)

\* Errors are compared at two strengths.  Property level: sentinel errors by
\* identity, built-in errors only as "some built-in error".  Model level
\* (drift detection): the exact kind.
BuiltinKinds == {"count", "type", "div0", "exec", "cond", "count:boolop", "type:boolop",
                 "dne", "other", "nil", "wide", "err", "some"}
IsWide(x) == x.t = "e" /\ x.v = "wide"
IsSentinel(x) == IsErr(x) /\ x.v \notin BuiltinKinds

\* Property-level equality of two outcomes (value, DNE or error).
OutcomeEq(a, b) ==
  IF IsErr(a) \/ IsErr(b)
  THEN IsErr(a) /\ IsErr(b) /\ (IF IsSentinel(a) \/ IsSentinel(b) THEN a.v = b.v ELSE TRUE)
  ELSE VEq(a, b)

Range(q) == {q[i] : i \in 1..Len(q)}
Has(ps, x) == \E i \in 1..Len(ps) : VEq(ps[i], x)
=============================================================================
