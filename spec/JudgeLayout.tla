------------------------------ MODULE JudgeLayout ------------------------------
(***************************************************************************)
(* Trace validation for property C14.                                      *)
(*  kind "fmt": a text, the real formatter's output (1x, 2x), and the real *)
(*    lexer's tokens of all of them.  Property level: the formatter        *)
(*    preserves tokens and comments (judged on the real lexer's tokens     *)
(*    when the hook is present, and on the model lexer's).  Drift: real    *)
(*    tokens = Lexer!Lex, real output = Formatter!Format.                  *)
(*  kind "relayout": a valid expression and re-laid-out variants, all      *)
(*    compiled and evaluated: same program, same results.                  *)
(***************************************************************************)
EXTENDS Formatter, Json, IOUtils

Trace == ndJsonDeserialize(IOEnv.OBS)
VARIABLES l, judged, nontriv, skipped, drift, found
vars == <<l, judged, nontriv, skipped, drift, found>>
Idx(q) == 1..Len(q)
Card(X) == Cardinality(X)

\* real token lists -> the shape Lexer!Norm produces
RealLex(x) == [err |-> x.out # "ok", toks |-> x.toks]
\* (the hook reports no tokens when the lexer fails: compare tokens only when lexing succeeds)
NormE(x) == IF x.err THEN [err |-> TRUE, toks |-> <<>>] ELSE Norm(x)
SameReal(a, b) == NormE(RealLex(a)) = NormE(RealLex(b))
HasQuote(text) == \E k \in 1..Len(text) : text[k] = "Q"

FFmt(r) ==
  LET mk(sig) == {<<"C14", r.id, 0, 0, sig>>} IN
  (IF r.fout = "panic" THEN mk("formatter-panic") ELSE {})
  \cup (IF r.fout = "hang" THEN mk("formatter-does-not-return") ELSE {})
  \cup (IF r.lex.out = "panic" \/ r.lexf1.out = "panic" THEN mk("lexer-panic") ELSE {})
  \cup
  \* the formatter returns text with exactly the same tokens and comments ...
  (IF r.fout = "ok" /\ r.lex.out # "panic" /\ r.lexf1.out # "panic" /\ ~SameReal(r.lex, r.lexf1) THEN mk("format-changes-tokens") ELSE {})
  \cup (IF r.fout = "ok" /\ r.lexi.out # "panic" /\ r.lexif1.out # "panic" /\ ~SameReal(r.lexi, r.lexif1) THEN mk("format-changes-infix-tokens") ELSE {})
  \* ... also when applied repeatedly
  \cup (IF r.fout = "ok" /\ r.lex.out # "panic" /\ r.lexf2.out # "panic" /\ ~SameReal(r.lex, r.lexf2) THEN mk("format-twice-changes-tokens") ELSE {})
  \* ... and under the independent (model) lexer
  \cup (IF r.fout = "ok" /\ ~SameTokens(Lex(r.f1, FALSE), Lex(r.text, FALSE)) /\ ~SameReal(r.lex, r.lexf1)
        THEN mk("format-changes-model-tokens") ELSE {})
\* explained by the string-unaware formatter of the pinned tree before the fix (F-C14-1):
\* the real output is exactly what the as-built model formatter produces, and the text has a quote
KFmt(r) == {f \in FFmt(r) : f[5] \in {"format-changes-tokens", "format-changes-infix-tokens", "format-twice-changes-tokens",
                                      "format-changes-model-tokens"}
                            /\ HasQuote(r.text) /\ r.fout = "ok" /\ r.f1 = Format(r.text, FALSE)}
DFmt(r) ==
  (IF r.lex.out # "panic" /\ NormE(RealLex(r.lex)) # NormE(Lex(r.text, FALSE)) THEN {<<"DRIFT", r.id, 0, "lexer-prefix">>} ELSE {})
  \cup (IF r.lexi.out # "panic" /\ NormE(RealLex(r.lexi)) # NormE(Lex(r.text, TRUE)) THEN {<<"DRIFT", r.id, 0, "lexer-infix">>} ELSE {})
  \cup (IF r.fout = "ok" /\ r.f1 # Format(r.text, TRUE) THEN {<<"DRIFT", r.id, 0, "formatter">>} ELSE {})

SameRes(a, b) == Len(a) = Len(b) /\ \A i \in Idx(a) : a[i].t = b[i].t /\ (a[i].t = "e" \/ a[i].v = b[i].v)
FRel(r) ==
  {<<"C14", r.id, k, 0, sig>> : k \in Idx(r.variants), sig \in {"compile", "program", "result"}} \cap
  {f \in {<<"C14", r.id, k, 0, sig>> : k \in Idx(r.variants), sig \in {"compile", "program", "result"}} :
     LET v == r.variants[f[3]] IN
     CASE f[5] = "compile" -> v.cout # r.base.cout
       [] f[5] = "program" -> v.cout = "ok" /\ r.base.cout = "ok" /\ (v.dump # r.base.dump \/ v.table # r.base.table)
       [] f[5] = "result" -> v.cout = "ok" /\ r.base.cout = "ok" /\ ~SameRes(v.res, r.base.res)}

Init == l = 1 /\ judged = 0 /\ nontriv = 0 /\ skipped = 0 /\ drift = 0 /\ found = 0
Next ==
  /\ l <= Len(Trace)
  /\ l' = l + 1
  /\ LET r == Trace[l]
         F0 == IF r.kind = "fmt" THEN FFmt(r) ELSE FRel(r)
         K == IF r.kind = "fmt" THEN KFmt(r) ELSE {}
         F == F0 \ K
         D == IF r.kind = "fmt" THEN DFmt(r) ELSE {}
     IN /\ \A f \in F : PrintT(<<"F", f[1], f[2], f[3], f[4], f[5]>>)
        /\ \A f \in K : PrintT(<<"K", f[1], f[2], f[3], f[4], "F-C14-1">>)
        /\ \A f \in D : PrintT(<<"DRIFT", f[2], f[3], f[4]>>)
        /\ judged' = judged + (IF r.kind = "fmt" THEN 1 ELSE Len(r.variants))
        /\ nontriv' = nontriv + (IF r.kind = "fmt"
                                 THEN (IF r.fout = "ok" /\ r.f1 # r.text /\ r.lex.out = "ok" /\ Len(r.lex.toks) >= 2 THEN 1 ELSE 0)
                                 ELSE Len(r.variants))
        /\ skipped' = skipped
        /\ drift' = drift + (IF r.kind = "fmt" THEN 1 ELSE 0)
        /\ found' = found + Card(F)
Spec == Init /\ [][Next]_vars
Done == l = Len(Trace) + 1 => PrintT(<<"SUMMARY", l - 1, judged, nontriv, skipped, drift, found>>)
Accepted == TLCGet("stats").diameter - 1 = Len(Trace)
=============================================================================
