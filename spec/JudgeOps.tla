-------------------------------- MODULE JudgeOps --------------------------------
(***************************************************************************)
(* Trace validation for the operator-table properties C17, C18, C19:       *)
(* single-operator expressions evaluated by the real code (parameters as   *)
(* literals folded at compile time, as variables, and through the fast     *)
(* path), judged against Operators.tla, Int64.tla and Encodings.tla.       *)
(***************************************************************************)
EXTENDS Operators, Encodings, Json, IOUtils, TLC

Trace == ndJsonDeserialize(IOEnv.OBS)
VARIABLES l, judged, nontriv, skipped, drift, found
vars == <<l, judged, nontriv, skipped, drift, found>>
Idx(q) == 1..Len(q)
Card(X) == Cardinality(X)

IsW(x) == x.t = "w"
IsE(x) == x.t = "e"
\* a wide int as a small one with the same sign and zero-ness (error classes only depend on those)
Shrink(x) == IF IsW(x) THEN (IF IsZero(x.v) THEN I(0) ELSE IF IsNeg(x.v) THEN I(-1) ELSE I(1)) ELSE x
ShrinkAll(ps) == [i \in Idx(ps) |-> Shrink(ps[i])]
AllW(ps) == \A i \in Idx(ps) : IsW(ps[i])
AllB(ps) == \A i \in Idx(ps) : IsBool(ps[i])
WEq(a, b) == a.t = b.t /\ a.v = b.v
W(v) == [t |-> "w", v |-> v]

\* ---------------------------------------------------------------- C18
Fold64(op, ps) ==
  LET RECURSIVE go(_, _)
      go(i, acc) == IF i > Len(ps) THEN acc
                    ELSE go(i + 1, CASE op = "add" -> Add64(acc, ps[i].v) [] op = "sub" -> Sub64(acc, ps[i].v) [] op = "mul" -> Mul64(acc, ps[i].v))
  IN go(2, ps[1].v)
\* the value the operator must return (only where the spec computes it), else NIL
Want18(c, ps) ==
  IF IsErr(Apply(c, ShrinkAll(ps))) THEN E("err")
  ELSE CASE c \in {"add", "sub", "mul"} -> W(Fold64(c, ps))
         [] c = "gt" -> B(Lt64(ps[2].v, ps[1].v))
         [] c = "lt" -> B(Lt64(ps[1].v, ps[2].v))
         [] c = "ge" -> B(Le64(ps[2].v, ps[1].v))
         [] c = "le" -> B(Le64(ps[1].v, ps[2].v))
         [] c = "between" -> B(Le64(ps[2].v, ps[1].v) /\ Le64(ps[1].v, ps[3].v))
         [] c = "eq" -> B(\A i \in Idx(ps) : WEq(ps[1], ps[i]))
         [] c = "ne" -> B(~WEq(ps[1], ps[2]))
         [] c \in {"and", "or", "xor", "not"} -> Apply(c, ps)
         [] OTHER -> NIL          \* div / mod: judged relationally (kind divmod, kind fold)
\* what the pinned engine does for and/or instead of calling the operator (F-C18-1):
\* it returns the first deciding boolean, or the last operand if that is a boolean
AsBuiltBool(c, ps) ==
  LET n == Len(ps)
      RECURSIVE go(_)
      go(i) == IF i > n THEN Apply(c, ps)
               ELSE IF IsBool(ps[i]) /\ (i = n \/ (c = "and" /\ ~ps[i].v) \/ (c = "or" /\ ps[i].v)) THEN ps[i]
               ELSE go(i + 1)
  IN IF n = 0 THEN Apply(c, ps) ELSE go(1)
ResEq(o, w) == IF IsE(w) THEN IsE(o) ELSE WEq(o, w)

FCall(r) ==
  LET w == Want18(r.canon, r.ps) IN
  {f \in {<<"C18", r.id, k, 0, sig>> : k \in Idx(r.outs), sig \in {"panic", "wrong", "alias"}} :
     LET o == r.outs[f[3]].res IN
     CASE f[5] = "panic" -> o.t = "p"
       [] f[5] = "wrong" -> o.t \notin {"p", "ce"} /\ w.t # "nil" /\ ~ResEq(o, w)
       [] f[5] = "alias" -> o.t \notin {"p", "ce"} /\ w.t = "nil" /\
                            \E j \in Idx(r.outs) : j < f[3] /\ r.outs[j].res.t \notin {"p", "ce"} /\ r.outs[j].path = r.outs[f[3]].path /\
                                                   ~(IF IsE(o) THEN IsE(r.outs[j].res) ELSE WEq(o, r.outs[j].res))}
KCall(r) ==
  {f \in FCall(r) : f[5] = "wrong" /\ r.canon \in {"and", "or"} /\ r.outs[f[3]].path \in {"var", "lit"} /\
                    LET ab == AsBuiltBool(r.canon, r.ps) IN
                    IF IsErr(ab) THEN IsE(r.outs[f[3]].res) ELSE WEq(r.outs[f[3]].res, ab)}

\* every alias answers like its named form under TryEval with one operand unavailable (same path)
FTryAlias(r) ==
  {f \in {<<"C18", r.id, k, 0, sig>> : k \in Idx(r.outs), sig \in {"panic", "alias-tryeval"}} :
     LET o == r.outs[f[3]].res IN
     CASE f[5] = "panic" -> o.t = "p"
       [] f[5] = "alias-tryeval" -> o.t \notin {"p", "ce"} /\
            \E j \in Idx(r.outs) : j < f[3] /\ r.outs[j].res.t \notin {"p", "ce"} /\ r.outs[j].path = r.outs[f[3]].path /\
                                    ~(IF IsE(o) THEN IsE(r.outs[j].res)
                                      ELSE IF o.t = "d" \/ r.outs[j].res.t = "d" THEN o.t = r.outs[j].res.t
                                      ELSE WEq(o, r.outs[j].res))}

FDivMod(r) ==
  LET mk(sig) == {<<"C18", r.id, 0, 0, sig>>} IN
  IF r.q.t = "p" \/ r.r.t = "p" THEN mk("panic")
  ELSE IF IsZero(r.b.v) THEN (IF IsE(r.q) /\ IsE(r.r) THEN {} ELSE mk("zero-divisor-no-error"))
  ELSE IF ~IsW(r.q) \/ ~IsW(r.r) THEN mk("division-fails")
  ELSE IF ~DivModOK(r.a.v, r.b.v, r.q.v, r.r.v) THEN mk("quotient-remainder") ELSE {}
FFold(r) ==
  LET mk(sig) == {<<"C18", r.id, 0, 0, sig>>} IN
  IF r.ab.t = "p" \/ r.abc.t = "p" THEN mk("panic")
  ELSE IF IsE(r.ab) THEN (IF IsE(r.abc) THEN {} ELSE mk("fold-law"))
  ELSE IF (IsE(r.ab_c) # IsE(r.abc)) \/ (IsW(r.abc) /\ ~WEq(r.abc, r.ab_c)) THEN mk("fold-law") ELSE {}

\* ---------------------------------------------------------------- C17
FOverlap(r) ==
  LET w == Apply("overlap", <<r.a, r.b>>)  wba == Apply("overlap", <<r.b, r.a>>) IN
  {f \in {<<"C17", r.id, k, 0, sig>> : k \in Idx(r.outs), sig \in {"panic", "ab", "ba", "asymmetric"}} :
     LET o == r.outs[f[3]] IN
     CASE f[5] = "panic" -> o.ab.t = "p" \/ o.ba.t = "p"
       [] f[5] = "ab" -> o.ab.t \notin {"p", "ce", "skip"} /\ ~OutcomeEq(o.ab, w)
       [] f[5] = "ba" -> o.ba.t \notin {"p", "ce", "skip"} /\ ~OutcomeEq(o.ba, wba)
       [] f[5] = "asymmetric" -> o.ab.t \in {"b", "e"} /\ o.ba.t \in {"b", "e"} /\ ~OutcomeEq(o.ab, o.ba)}
KOverlap(r) ==
  {f \in FOverlap(r) : f[5] \in {"ab", "ba", "asymmetric"} /\
     LET x == IF f[5] = "ba" THEN <<r.b, r.a>> ELSE <<r.a, r.b>>
         d1 == OpDeviation("overlap", <<r.a, r.b>>)  d2 == OpDeviation("overlap", <<r.b, r.a>>)
     IN (d1 # <<>> /\ d1[1] = "F-C17-1") \/ (d2 # <<>> /\ d2[1] = "F-C17-1")}
FIn(r) ==
  LET w == Apply("in", <<r.a, r.b>>) IN
  {f \in {<<"C17", r.id, k, 0, sig>> : k \in Idx(r.outs), sig \in {"panic", "in"}} :
     LET o == r.outs[f[3]].res IN
     CASE f[5] = "panic" -> o.t = "p"
       [] f[5] = "in" -> o.t \notin {"p", "ce", "skip"} /\ ~OutcomeEq(o, w)}

\* ---------------------------------------------------------------- C19
NOf(r) == IF r.n = -1 THEN 3 ELSE r.n
UpToN(r) == Len(r.a) <= NOf(r) /\ Len(r.b) <= NOf(r)
FVer(r) ==
  LET n == NOf(r)
      va == VersionValid(r.a, n)  vb == VersionValid(r.b, n)
      mk(sig) == {<<"C19", r.id, 0, 0, sig>>}
  IN (IF r.ea.t = "p" \/ r.eb.t = "p" THEN mk("panic") ELSE {})
     \* rejected exactly when the property says so
     \cup (IF r.ea.t \notin {"p", "ce"} /\ (IsE(r.ea) # ~va) THEN mk("accept-reject-a") ELSE {})
     \cup (IF r.eb.t \notin {"p", "ce"} /\ (IsE(r.eb) # ~vb) THEN mk("accept-reject-b") ELSE {})
     \* exact encodings
     \cup (IF va /\ IsW(r.ea) /\ r.ea.v # VersionEnc64(r.a, n) THEN mk("encoding") ELSE {})
     \cup (IF vb /\ IsW(r.eb) /\ r.eb.v # VersionEnc64(r.b, n) THEN mk("encoding") ELSE {})
     \* comparing the encodings = comparing the versions component-wise, missing components read as 0
     \cup (IF va /\ vb /\ UpToN(r) /\
              LET c == LexCmp(Pad(r.a, n), Pad(r.b, n)) IN
              ~(VEq(r.lt, B(c = -1)) /\ VEq(r.eq, B(c = 0)) /\ VEq(r.gt, B(c = 1)))
           THEN mk("order") ELSE {})
     \cup (IF (~va \/ ~vb) /\ (~IsE(r.lt) \/ ~IsE(r.eq) \/ ~IsE(r.gt)) THEN mk("invalid-version-compares") ELSE {})
FDate(r) ==
  LET ok == r.broken = "" /\ DateValid(r.y, r.mo, r.d)
      mk(sig) == {<<"C19", r.id, 0, 0, sig>>}
  IN (IF r.res.t = "p" THEN mk("panic") ELSE {})
     \cup (IF r.res.t \notin {"p", "ce"} /\ ok /\ ~(IsW(r.res) /\ r.res.v = UnixSecsAt(r.y, r.mo, r.d, r.hh, r.mi, r.ss, r.off)) THEN mk("unix-seconds") ELSE {})
     \cup (IF r.res.t \notin {"p", "ce"} /\ ~ok /\ ~IsE(r.res) THEN mk("unparsable-accepted") ELSE {})

\* ---------------------------------------------------------------- integer literals at the edge of int64 (C18, C01)
\* An integer literal denotes the number written; a literal outside int64 denotes no value of the engine and must not
\* compile (wrapped modulo 2^64 it would make `(= 18446744073709551617 1)` true).  Decided on the digits.
MaxDigits == <<9, 2, 2, 3, 3, 7, 2, 0, 3, 6, 8, 5, 4, 7, 7, 5, 8, 0, 7>>    \* 2^63 - 1
RECURSIVE StripZeros(_)
StripZeros(ds) == IF Len(ds) > 1 /\ ds[1] = 0 THEN StripZeros(Tail(ds)) ELSE ds
RECURSIVE DigitsLe(_, _, _)
DigitsLe(a, b, i) == IF i > Len(a) THEN TRUE ELSE IF a[i] < b[i] THEN TRUE ELSE IF a[i] > b[i] THEN FALSE ELSE DigitsLe(a, b, i + 1)
FitsInt64(neg, ds0) ==
  LET ds == StripZeros(ds0)
      lim == IF neg THEN [MaxDigits EXCEPT ![19] = 8] ELSE MaxDigits IN
  Len(ds) < 19 \/ (Len(ds) = 19 /\ DigitsLe(ds, lim, 1))
FBigLit(r) ==
  {f \in {<<"C18", r.id, k, 0, sig>> : k \in Idx(r.outs), sig \in {"panic", "literal-outside-int64-accepted", "int64-literal-rejected", "literal-value"}} :
     LET o == r.outs[f[3]]  fits == FitsInt64(r.neg, r.digits) IN
     CASE f[5] = "panic" -> o.cout = "panic"
       [] f[5] = "literal-outside-int64-accepted" -> o.cout = "ok" /\ ~fits
       [] f[5] = "int64-literal-rejected" -> o.cout = "ce" /\ fits
       \* a literal that fits equals itself and, compared with 1, is 1 exactly when its digits say so
       [] f[5] = "literal-value" -> o.cout = "ok" /\ fits /\ o.how = "eq1" /\
                                    ~(o.res.t = "b" /\ o.res.v = (StripZeros(r.digits) = <<1>> /\ ~r.neg))}

Findings(r) ==
  CASE r.kind = "call" -> FCall(r) [] r.kind = "divmod" -> FDivMod(r) [] r.kind = "fold" -> FFold(r)
    [] r.kind = "tryalias" -> FTryAlias(r)
    [] r.kind = "overlap" -> FOverlap(r) [] r.kind = "in" -> FIn(r)
    [] r.kind = "ver" -> FVer(r) [] r.kind = "date" -> FDate(r) [] r.kind = "biglit" -> FBigLit(r) [] OTHER -> {}
Known(r) == CASE r.kind = "call" -> KCall(r) [] r.kind = "overlap" -> KOverlap(r) [] OTHER -> {}
KnownId(r) == IF r.kind = "call" THEN "F-C18-1" ELSE "F-C17-1"
NonTriv(r) ==
  CASE r.kind = "call" -> (IF \E i \in Idx(r.ps) : IsW(r.ps[i]) /\ ~Fits31(r.ps[i].v) THEN Len(r.outs) ELSE IF Len(r.ps) # 2 THEN Len(r.outs) ELSE 0)
    [] r.kind = "divmod" -> IF ~Fits31(r.a.v) \/ IsZero(r.b.v) THEN 1 ELSE 0
    [] r.kind = "fold" -> 1
    [] r.kind = "overlap" -> IF IsList(r.a) /\ IsList(r.b) /\ (Len(r.a.v) + Len(r.b.v) >= 99 \/ r.a.v = <<>> \/ r.b.v = <<>>)
                             THEN 2 * Len(r.outs) ELSE 0
    [] r.kind = "in" -> Len(r.outs)
    [] r.kind = "tryalias" -> Len(r.outs)
    [] r.kind = "ver" -> 1 [] r.kind = "date" -> 1 [] r.kind = "biglit" -> Len(r.outs) [] OTHER -> 0
Judged(r) ==
  CASE r.kind \in {"call", "in", "tryalias", "biglit"} -> Len(r.outs) [] r.kind = "overlap" -> 2 * Len(r.outs) [] OTHER -> 1

Init == l = 1 /\ judged = 0 /\ nontriv = 0 /\ skipped = 0 /\ drift = 0 /\ found = 0
Next ==
  /\ l <= Len(Trace)
  /\ l' = l + 1
  /\ LET r == Trace[l]
         F0 == Findings(r)
         K == Known(r)
     IN /\ \A f \in F0 \ K : PrintT(<<"F", f[1], f[2], f[3], f[4], f[5]>>)
        /\ \A f \in K : PrintT(<<"K", f[1], f[2], f[3], f[4], KnownId(r)>>)
        /\ judged' = judged + Judged(r)
        /\ nontriv' = nontriv + NonTriv(r)
        /\ skipped' = skipped /\ drift' = drift
        /\ found' = found + Card(F0 \ K)
Spec == Init /\ [][Next]_vars
Done == l = Len(Trace) + 1 => PrintT(<<"SUMMARY", l - 1, judged, nontriv, skipped, drift, found>>)
Accepted == TLCGet("stats").diameter - 1 = Len(Trace)
=============================================================================
