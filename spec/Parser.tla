-------------------------------- MODULE Parser --------------------------------
(***************************************************************************)
(* The parsers of parser.go over token sequences (Lexer.tla): directive    *)
(* comments (parseConfig), the structural pre-check (check), the prefix    *)
(* recursive-descent parser (parseExpression) and the infix shunting-yard  *)
(* parser (parseInfixExpression) exactly as coded: operator-stack entries  *)
(* carry the output height at push time, `comparePrecedence`, reduction on *)
(* identifier / `)` / `,` / end, call arity from the output height,        *)
(* bracket lists as leaves.  Every token index and every pop is bounds-    *)
(* checked: where the pinned code indexed or popped without a check the    *)
(* result is [r |-> "panic"] when asBuilt, and an error otherwise (the     *)
(* intended behaviour: property C06, "result or error, never panic").      *)
(*                                                                         *)
(* Result: [r |-> "ok", tree |-> t] | [r |-> "err"] | [r |-> "panic"]      *)
(* pc (parser config): [vars, ops, consts (function name -> value),        *)
(*                      undef : BOOLEAN]                                   *)
(***************************************************************************)
EXTENDS Lexer, Semantics

RECURSIVE Concat(_)
Concat(tx) == IF tx = <<>> THEN "" ELSE tx[1] \o Concat(Tail(tx))
Name(t) == Concat(t.tx)

Keywords == {"if", "let", "any", "all", "map", "filter", "reduce", "collect"}
StdPC == [vars |-> {"x", "y", "z", "n", "m", "s", "l", "e"}, ops |-> {"f", "g", "h", "p", "one", "zt", "zf"},
          consts |-> [c \in {"K", "KT"} |-> IF c = "K" THEN I(3) ELSE B(TRUE)], undef |-> FALSE]
IsOperatorName(pc, nm) == IsBuiltin(nm) \/ nm \in pc.ops

DigitVal(d) == CASE d = "0" -> 0 [] d = "1" -> 1 [] d = "2" -> 2 [] d = "3" -> 3 [] d = "4" -> 4
                 [] d = "5" -> 5 [] d = "6" -> 6 [] d = "7" -> 7 [] d = "8" -> 8 [] d = "9" -> 9
IntVal(tx) ==
  LET neg == tx[1] = "-"
      body == IF tx[1] \in {"-", "+"} THEN Tail(tx) ELSE tx
      RECURSIVE go(_, _)
      go(i, acc) == IF i > Len(body) THEN acc ELSE go(i + 1, acc * 10 + DigitVal(body[i]))
  IN IF neg THEN -go(1, 0) ELSE go(1, 0)

(***************************************************************************)
(* Directives (parseConfig, parser.go:900-944): only comments BEFORE the   *)
(* first other token are looked at; a comment whose trimmed text starts    *)
(* with ";;;;" must be a comma-separated list of option:bool pairs.        *)
(* Returns [err, opts] where opts maps the four optimization names to      *)
(* "on" / "off" / "unset" (later pairs override earlier ones).             *)
(***************************************************************************)
OptNames == {"constant_folding", "reduce_nesting", "fast_evaluation", "reordering"}
TrueWords == {"1", "t", "T", "true", "TRUE", "True"}
FalseWords == {"0", "f", "F", "false", "FALSE", "False"}
Trim(tx) == TrimL(TrimR(tx))
\* split a character sequence at a separator character
Split(tx, sep) ==
  LET RECURSIVE go(_, _, _)
      go(i, cur, acc) == IF i > Len(tx) THEN Append(acc, cur)
                         ELSE IF tx[i] = sep THEN go(i + 1, <<>>, Append(acc, cur))
                         ELSE go(i + 1, Append(cur, tx[i]), acc)
  IN go(1, <<>>, <<>>)
NoOpts == [o \in OptNames |-> "unset"]
ApplyPair(opts, key, on) ==
  IF key = "optimize" THEN [o \in OptNames |-> IF on THEN "on" ELSE "off"]
  ELSE [opts EXCEPT ![key] = IF on THEN "on" ELSE "off"]
DirectiveOf(cmt, opts0) ==   \* one comment token text (starting with ";")
  LET t == Trim(cmt) IN
  IF Len(t) < 4 \/ SubSeq(t, 1, 4) # <<";", ";", ";", ";">> THEN [err |-> FALSE, opts |-> opts0]
  ELSE LET parts == Split(SubSeq(t, 5, Len(t)), ",")
           RECURSIVE go(_, _)
           go(i, opts) ==
             IF i > Len(parts) THEN [err |-> FALSE, opts |-> opts]
             ELSE LET pair == Split(parts[i], ":") IN
                  IF Len(pair) # 2 THEN [err |-> TRUE, opts |-> opts]
                  ELSE LET key == Concat(Trim(pair[1]))  val == Concat(Trim(pair[2])) IN
                       IF val \notin TrueWords \cup FalseWords THEN [err |-> TRUE, opts |-> opts]
                       ELSE IF key \notin OptNames \cup {"optimize"} THEN [err |-> TRUE, opts |-> opts]
                       ELSE go(i + 1, ApplyPair(opts, key, val \in TrueWords))
       IN go(1, opts0)
Directives(toks) ==
  LET RECURSIVE go(_, _)
      go(i, opts) ==
        IF i > Len(toks) \/ toks[i].ty # "comment" THEN [err |-> FALSE, opts |-> opts]
        ELSE LET d == DirectiveOf(toks[i].tx, opts) IN IF d.err THEN d ELSE go(i + 1, d.opts)
  IN go(1, NoOpts)

(***************************************************************************)
(* check(): the structural pre-check (parser.go:275-325)                   *)
(***************************************************************************)
CheckTokens(T, infix, asBuilt) ==
  LET n == Len(T)
      RECURSIVE go(_, _, _)
      go(i, cnt, inB) ==
        IF i > n THEN (IF cnt # 0 THEN "err" ELSE "ok")
        ELSE LET t == T[i] IN
             IF t.ty \notin {"lParen", "rParen", "comma", "lBracket", "rBracket"} THEN go(i + 1, cnt, inB)
             ELSE IF ~infix /\ t.ty \in {"comma", "lBracket", "rBracket"} THEN "err"
             ELSE LET c2 == IF t.ty = "lParen" THEN cnt + 1 ELSE IF t.ty = "rParen" THEN cnt - 1 ELSE cnt IN
                  IF c2 < 0 THEN "err"
                  ELSE IF ~infix /\ c2 = 0 /\ i # n THEN "err"
                  ELSE IF inB /\ t.ty # "rBracket" THEN "err"
                  ELSE go(i + 1, c2, IF t.ty = "lBracket" THEN TRUE ELSE IF t.ty = "rBracket" THEN FALSE ELSE inB)
  IN IF ~infix /\ n = 0 THEN (IF asBuilt THEN "panic" ELSE "err")      \* F-C06-1: tokens[0] of an empty list
     ELSE IF ~infix /\ (T[1].ty # "lParen" \/ T[n].ty # "rParen") THEN "err"
     ELSE go(1, 0, FALSE)

(***************************************************************************)
(* Leaves (buildLeafNode): int, string, constant, registered variable,     *)
(* undefined variable (mode-dependent), list literal.                      *)
(* Returns [r |-> "none"] | [r |-> "err"] | [r |-> "panic"] |              *)
(*         [r |-> "ok", n |-> tree, next |-> index]                        *)
(***************************************************************************)
ListAt(T, i, left, right, asBuilt) ==
  IF T[i].ty # left THEN [r |-> "none"]
  ELSE IF i + 1 > Len(T) THEN (IF asBuilt THEN [r |-> "panic"] ELSE [r |-> "none"])   \* F-C06-3: T[i+1]
  ELSE LET ty == T[i + 1].ty IN
       IF ty \notin {right, "integer", "str"} THEN [r |-> "none"]
       ELSE LET RECURSIVE scan(_, _)
                scan(j, acc) ==
                  IF j > Len(T) THEN [r |-> "ok", elems |-> acc, next |-> i + 1]   \* unterminated (infix only)
                  ELSE IF T[j].ty = right THEN [r |-> "ok", elems |-> acc, next |-> j + 1]
                  ELSE IF T[j].ty # ty THEN [r |-> "err"]
                  ELSE scan(j + 1, Append(acc, T[j]))
                s == scan(i + 1, <<>>)
            IN IF s.r # "ok" THEN s
               ELSE [r |-> "ok", next |-> s.next,
                     n |-> C(IF ty = "integer" THEN IL([k \in 1..Len(s.elems) |-> IntVal(s.elems[k].tx)])
                             ELSE SL([k \in 1..Len(s.elems) |-> Concat(s.elems[k].tx)]))]

LeafAt(T, i, pc, infix, asBuilt) ==
  LET t == T[i]
      nm == Name(t)
  IN CASE t.ty = "integer" -> [r |-> "ok", n |-> C(I(IntVal(t.tx))), next |-> i + 1]
       [] t.ty = "str" -> [r |-> "ok", n |-> C(S(nm)), next |-> i + 1]
       [] t.ty = "ident" /\ nm \in {"true", "false"} -> [r |-> "ok", n |-> C(B(nm = "true")), next |-> i + 1]
       [] t.ty = "ident" /\ nm \in DOMAIN pc.consts -> [r |-> "ok", n |-> C(pc.consts[nm]), next |-> i + 1]
       [] t.ty = "ident" /\ nm \in pc.vars -> [r |-> "ok", n |-> V(nm), next |-> i + 1]
       [] t.ty = "ident" /\ pc.undef /\ nm \notin Keywords /\ ~IsOperatorName(pc, nm) -> [r |-> "ok", n |-> V(nm), next |-> i + 1]
       [] OTHER -> IF infix THEN ListAt(T, i, "lBracket", "rBracket", asBuilt)
                   ELSE ListAt(T, i, "lParen", "rParen", asBuilt)

\* buildParentNode: keyword `if` (exactly three operands) or a known operator
BuildParent(pc, nm, kids) ==
  IF nm \in Keywords
  THEN (IF nm = "if" /\ Len(kids) = 3 THEN [r |-> "ok", n |-> If(kids[1], kids[2], kids[3])] ELSE [r |-> "err"])
  ELSE IF IsOperatorName(pc, nm) THEN [r |-> "ok", n |-> O(nm, kids)]
  ELSE [r |-> "err"]

(***************************************************************************)
(* Prefix: parseExpression (parser.go:628-679)                             *)
(***************************************************************************)
RECURSIVE PExpr(_, _, _, _)
PExpr(T, i, pc, asBuilt) ==   \* returns [r, n, next]
  IF i > Len(T) THEN [r |-> "err"]                       \* peek: no next token
  ELSE LET lf == LeafAt(T, i, pc, FALSE, asBuilt) IN
       IF lf.r # "none" THEN lf
       ELSE IF T[i].ty = "ident" THEN [r |-> "err"]     \* unknown token
       ELSE IF T[i].ty # "lParen" THEN [r |-> "err"]
       ELSE IF i + 1 > Len(T) THEN [r |-> "err"]
       ELSE IF T[i + 1].ty # "ident" THEN [r |-> "err"]
       ELSE LET car == Name(T[i + 1])
                RECURSIVE kids(_, _)
                kids(j, acc) ==
                  IF j > Len(T) THEN [r |-> "err"]
                  ELSE IF T[j].ty = "rParen" THEN [r |-> "ok", ks |-> acc, next |-> j + 1]
                  ELSE LET c == PExpr(T, j, pc, asBuilt) IN
                       IF c.r # "ok" THEN [r |-> c.r] ELSE kids(c.next, Append(acc, c.n))
                ks == kids(i + 2, <<>>)
            IN IF ks.r # "ok" THEN [r |-> ks.r]
               ELSE LET b == BuildParent(pc, car, ks.ks) IN
                    IF b.r # "ok" THEN [r |-> "err"] ELSE [r |-> "ok", n |-> b.n, next |-> ks.next]

ParsePrefix(T, pc, asBuilt) ==
  LET c == CheckTokens(T, FALSE, asBuilt) IN
  IF c # "ok" THEN [r |-> c]
  ELSE LET e == PExpr(T, 1, pc, asBuilt) IN
       IF e.r # "ok" THEN [r |-> e.r]
       ELSE IF e.next <= Len(T) THEN [r |-> "err"]        \* trailing tokens
       ELSE [r |-> "ok", tree |-> e.n]

(***************************************************************************)
(* Infix: parseInfixExpression (parser.go:681-825)                         *)
(***************************************************************************)
Prec(op) == CASE op \in {"*", "/", "%"} -> 8 [] op \in {"+", "-"} -> 7 [] op = "!" -> 6
              [] op \in {"=", "==", "!=", "<", ">", "<=", ">="} -> 5
              [] op \in {"&", "&&"} -> 4 [] op \in {"|", "||"} -> 3
              [] op = "," -> 2 [] op \in {"(", ")"} -> 1 [] op = "" -> -1 [] OTHER -> 100
Arity(op) == CASE op \in {"*", "/", "%", "+", "-", "=", "==", "!=", "<", ">", "<=", ">=", "&", "&&", "|", "||"} -> 2
               [] op = "!" -> 1 [] op \in {",", "(", ")", ""} -> 0 [] OTHER -> -1
CmpPrec(car, top) == IF Prec(car) = 100 THEN 100 ELSE Prec(car) - Prec(top)

\* buildTopOperators(car): ops entries are [t |-> name, l |-> output height at push]
RECURSIVE BuildTop(_, _, _, _, _)
BuildTop(car, ops, out, pc, asBuilt) ==
  IF ops = <<>> THEN [r |-> "ok", ops |-> ops, out |-> out]
  ELSE LET top == ops[Len(ops)]
           rest == SubSeq(ops, 1, Len(ops) - 1) IN
       IF car = ")" /\ top.t = "(" THEN [r |-> "ok", ops |-> rest, out |-> out]
       ELSE IF CmpPrec(car, top.t) > 0 THEN [r |-> "ok", ops |-> ops, out |-> out]
       ELSE LET cnt == IF Arity(top.t) = -1 THEN Len(out) - top.l ELSE Arity(top.t) IN
            \* F-C06-4: pop on an empty output stack / make with a negative length
            IF cnt > Len(out) \/ cnt < 0 THEN (IF asBuilt THEN [r |-> "panic"] ELSE [r |-> "err"])
            ELSE LET kids == SubSeq(out, Len(out) - cnt + 1, Len(out))
                     b == BuildParent(pc, top.t, kids) IN
                 IF b.r = "err" THEN [r |-> "err"]
                 ELSE BuildTop(car, rest, Append(SubSeq(out, 1, Len(out) - cnt), b.n), pc, asBuilt)

RECURSIVE InfixLoop(_, _, _, _, _, _)
InfixLoop(T, i, ops, out, pc, asBuilt) ==
  IF i > Len(T) THEN
     LET b == BuildTop("", ops, out, pc, asBuilt) IN
     IF b.r # "ok" THEN [r |-> b.r]
     ELSE IF Len(b.out) # 1 THEN [r |-> "err"] ELSE [r |-> "ok", tree |-> b.out[1]]
  ELSE LET lf == LeafAt(T, i, pc, TRUE, asBuilt) IN
    IF lf.r = "panic" THEN [r |-> "panic"]
    ELSE IF lf.r = "err" THEN [r |-> "err"]
    ELSE IF lf.r = "ok" THEN InfixLoop(T, lf.next, ops, Append(out, lf.n), pc, asBuilt)
    ELSE LET t == T[i]  nm == Name(t) IN
      CASE t.ty = "ident" ->
             LET b == BuildTop(nm, ops, out, pc, asBuilt) IN
             IF b.r # "ok" THEN [r |-> b.r]
             ELSE InfixLoop(T, i + 1, Append(b.ops, [t |-> nm, l |-> Len(b.out)]), b.out, pc, asBuilt)
        [] t.ty = "lParen" -> InfixLoop(T, i + 1, Append(ops, [t |-> "(", l |-> Len(out)]), out, pc, asBuilt)
        [] t.ty \in {"rParen", "comma"} ->
             LET b == BuildTop(nm, ops, out, pc, asBuilt) IN
             IF b.r # "ok" THEN [r |-> b.r] ELSE InfixLoop(T, i + 1, b.ops, b.out, pc, asBuilt)
        [] OTHER -> [r |-> "err"]

ParseInfix(T, pc, asBuilt, emptySource) ==
  LET c == CheckTokens(T, TRUE, asBuilt) IN
  IF c # "ok" THEN [r |-> c]
  \* no tokens: "invalid expression" -- but as built, formatting the error position
  \* indexes the source text, which panics when the SOURCE is empty (F-C06-2)
  ELSE IF T = <<>> THEN (IF asBuilt /\ emptySource THEN [r |-> "panic"] ELSE [r |-> "err"])
  ELSE InfixLoop(T, 1, <<>>, <<>>, pc, asBuilt)

(***************************************************************************)
(* Compile front end: text -> outcome.  [r, tree, opts]                    *)
(***************************************************************************)
ParseText(s, infix, pc, asBuilt) ==
  LET lx == Lex(s, infix) IN
  IF lx.err THEN [r |-> "err"]
  ELSE LET d == Directives(lx.toks) IN
       IF d.err THEN [r |-> "err"]
       ELSE LET T == NoComments(lx.toks)
                \* as built an empty SOURCE panics while formatting the error position, an
                \* all-blank / comment-only prefix source panics in check (F-C06-1, F-C06-2)
                p == IF infix THEN ParseInfix(T, pc, asBuilt, s = <<>>) ELSE ParsePrefix(T, pc, asBuilt)
            IN IF p.r = "ok" THEN [r |-> "ok", tree |-> p.tree, opts |-> d.opts] ELSE [r |-> p.r]
=============================================================================
