------------------------------- MODULE MCParse -------------------------------
(***************************************************************************)
(* Property C06 (front end) at model level: every token sequence up to     *)
(* MaxLen over a 16-token alphabet, in prefix and infix notation, with     *)
(* undefined-variable mode off and on.  The parsers of Parser.tla check    *)
(* every index and every pop, so "the parser reads outside the token list  *)
(* or pops an empty stack" is the explicit outcome "panic".                *)
(*   AsBuilt = FALSE (the repaired code): Total -- result or error.        *)
(*   AsBuilt = TRUE  (the pinned code): NoPanic fails with the witnesses   *)
(*   of findings F-C06-1..4 (cfg/MCParse.asbuilt.cfg).                     *)
(* Accepted prefix programs re-render and re-parse to the same tree.       *)
(***************************************************************************)
EXTENDS Parser
CONSTANTS MaxLen, AsBuilt, Reduced

Tk(ty, tx) == [ty |-> ty, tx |-> tx]
\* Reduced: the tokens that matter to the shunting-yard stacks, so that longer sequences
\* can be enumerated (guard-directed case generation, see EmitRisky)
Alphabet == IF Reduced THEN {Tk("lParen", <<"(">>), Tk("rParen", <<")">>), Tk("lBracket", <<"[">>), Tk("comma", <<",">>),
                             Tk("integer", <<"1">>), Tk("ident", <<"x">>), Tk("ident", <<"+">>), Tk("ident", <<"f">>)} ELSE
            {Tk("lParen", <<"(">>), Tk("rParen", <<")">>), Tk("lBracket", <<"[">>), Tk("rBracket", <<"]">>),
             Tk("comma", <<",">>), Tk("integer", <<"1">>), Tk("str", <<"a">>), Tk("ident", <<"x">>),
             Tk("ident", <<"+">>), Tk("ident", <<"*">>), Tk("ident", <<"!">>), Tk("ident", <<"=", "=">>),
             Tk("ident", <<"&", "&">>), Tk("ident", <<"f">>), Tk("ident", <<"i", "f">>), Tk("ident", <<"q">>)}
PCs == {StdPC, [StdPC EXCEPT !.undef = TRUE]}

VARIABLE T
Init == T = <<>>
Next == Len(T) < MaxLen /\ \E c \in Alphabet : T' = Append(T, c)
Spec == Init /\ [][Next]_T

Outcomes == {ParsePrefix(T, pc, AsBuilt).r : pc \in PCs} \cup {ParseInfix(T, pc, AsBuilt, T = <<>>).r : pc \in PCs}
ParserTotal == Outcomes \subseteq {"ok", "err"}
NoPanic == "panic" \notin Outcomes

\* render a tree back to prefix tokens
RECURSIVE Render(_)
Render(t) ==
  CASE t.k = "v" -> <<Tk("ident", <<t.v>>)>>
    [] t.k = "c" -> (CASE t.v.t = "i" -> <<Tk("integer", <<"1">>)>>
                       [] t.v.t = "s" -> <<Tk("str", <<"a">>)>>
                       [] t.v.t = "b" -> <<Tk("ident", IF t.v.v THEN <<"t", "r", "u", "e">> ELSE <<"f", "a", "l", "s", "e">>)>>
                       [] t.v.t = "il" -> <<Tk("lParen", <<"(">>)>> \o [k \in 1..Len(t.v.v) |-> Tk("integer", <<"1">>)] \o <<Tk("rParen", <<")">>)>>
                       [] OTHER -> <<Tk("lParen", <<"(">>)>> \o [k \in 1..Len(t.v.v) |-> Tk("str", <<"a">>)] \o <<Tk("rParen", <<")">>)>>)
    [] OTHER -> LET RECURSIVE ks(_, _)
                    ks(i, acc) == IF i > Len(t.kids) THEN acc ELSE ks(i + 1, acc \o Render(t.kids[i]))
                    head == IF t.k = "if" THEN <<"i", "f">>
                            ELSE CASE t.v = "==" -> <<"=", "=">> [] t.v = "&&" -> <<"&", "&">> [] OTHER -> <<t.v>>
                IN <<Tk("lParen", <<"(">>), Tk("ident", head)>> \o ks(1, <<>>) \o <<Tk("rParen", <<")">>)>>
PrefixRoundTrips ==
  \A pc \in PCs : LET p == ParsePrefix(T, pc, AsBuilt) IN
                  p.r = "ok" => (ParsePrefix(Render(p.tree), pc, AsBuilt).r = "ok"
                                 /\ ParsePrefix(Render(p.tree), pc, AsBuilt).tree = p.tree)
\* what infix accepts, re-rendered in prefix form, is accepted by the prefix parser with the same tree
InfixMeansPrefix ==
  \A pc \in PCs : LET p == ParseInfix(T, pc, AsBuilt, T = <<>>) IN
                  (p.r = "ok" /\ p.tree.k \notin {"c", "v"}) =>
                     (ParsePrefix(Render(p.tree), pc, AsBuilt).r = "ok" /\ ParsePrefix(Render(p.tree), pc, AsBuilt).tree = p.tree)
\* Guard-directed generation: the as-built parser model "panics" exactly where the code
\* indexes the token list or pops a stack under a bounds check.  Every token sequence that
\* reaches such a point is printed and replayed on the real Compile (a missing or weakened
\* bounds check in the code panics on exactly these inputs).
RECURSIVE Joined(_)
Joined(ts) == IF ts = <<>> THEN "" ELSE Concat(ts[1].tx) \o (IF Len(ts) > 1 THEN " " ELSE "") \o Joined(Tail(ts))
ReachesGuard == \E pc \in PCs : ParsePrefix(T, pc, TRUE).r = "panic" \/ ParseInfix(T, pc, TRUE, T = <<>>).r = "panic"
EmitRisky == ReachesGuard => PrintT("CASE " \o Joined(T))
=============================================================================
