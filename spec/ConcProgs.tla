------------------------------ MODULE ConcProgs ------------------------------
(* The programs and bindings of the concurrency family (Concurrent.tla and      *)
(* JudgeConc.tla; harness/fam_conc.go has the same list, by index).             *)
EXTENDS Machine

\* the fixed program list (the harness has the same list, by index)
Progs == <<O("and", <<O("f", <<V("x")>>), O("or", <<V("y"), O("g", <<V("n")>>)>>)>>),
           O("+", <<O("f", <<V("n")>>), O("*", <<V("n"), V("m")>>)>>),
           O("or", <<O("and", <<V("x"), V("y")>>), O(">", <<O("-", <<V("n"), V("m")>>), O("g", <<V("m")>>)>>)>>),
           If(O("f", <<V("x")>>), O("+", <<V("n"), V("m")>>), O("g", <<V("n")>>)),
           O("eq", <<O("+", <<V("n"), V("n")>>), O("f", <<V("m")>>), O("-", <<V("m"), V("n")>>)>>)>>
MaskOf(i) == IF i % 2 = 0 THEN [cf |-> TRUE, rn |-> TRUE, fe |-> TRUE, ro |-> FALSE] ELSE AllOff
EnvA == [x |-> B(TRUE), y |-> B(FALSE), n |-> I(2), m |-> I(1)]
EnvB == [x |-> B(FALSE), y |-> B(TRUE), n |-> I(5), m |-> I(3)]
EnvC == [x |-> B(TRUE), y |-> B(TRUE), n |-> I(2), m |-> I(2)]
EnvOf(p) == CASE p = 1 -> EnvA [] p = 2 -> EnvB [] OTHER -> EnvC
\* a process that runs TryEval does so with one variable unavailable (the harness has the same rule)
AllVars == {"x", "y", "n", "m"}
Unavail(p) == IF p % 2 = 0 THEN {"y"} ELSE {"n"}
AvOf(p) == AllVars \ Unavail(p)

(***************************************************************************)
(* Event mode (ConcEvents.tla, JudgeConc.tla): one chunk of process p on   *)
(* the event-mode program L -- from where it is parked (before a step that *)
(* performs a fetch or a registered-operator call, or at its start) to     *)
(* where it parks next.                                                    *)
(***************************************************************************)
StepE(L, p, st) == EvalNext(L, EnvOf(p), st, TRUE, TRUE)
Effectful(L, p, st) == st.st = "run" /\ Len(StepE(L, p, st).eff) > Len(st.eff)
RECURSIVE Park(_, _, _)
Park(L, p, st) == IF st.st # "run" \/ Effectful(L, p, st) THEN st ELSE Park(L, p, StepE(L, p, st))
\* [one |-> state after the pending effectful step (or cur at the start), nxt |-> parked again]
Chunk(L, p, cur) ==
  LET one == IF Effectful(L, p, cur) THEN StepE(L, p, cur) ELSE cur IN [one |-> one, nxt |-> Park(L, p, one)]

SameEvent(a, b) ==
  /\ a.k = b.k
  /\ a.k = "loop" => (a.pos = b.pos /\ Len(a.stack) = Len(b.stack) /\ \A i \in 1..Len(a.stack) : VEq(a.stack[i], b.stack[i]))
  /\ a.k = "op" => (a.n = b.n /\ Len(a.ps) = Len(b.ps) /\ (\A i \in 1..Len(a.ps) : VEq(a.ps[i], b.ps[i])) /\ OutcomeEq(a.r, b.r))
SameEvents(a, b) == Len(a) = Len(b) /\ \A i \in 1..Len(a) : SameEvent(a[i], b[i])
\* c is an interleaving of a and b (dynamic programming over pairs of prefixes)
IsShuffle(a, b, c) ==
  /\ Len(c) = Len(a) + Len(b)
  /\ LET ok[i \in 0..Len(a), j \in 0..Len(b)] ==
           IF i = 0 /\ j = 0 THEN TRUE
           ELSE (i > 0 /\ SameEvent(a[i], c[i + j]) /\ ok[i - 1, j]) \/ (j > 0 /\ SameEvent(b[j], c[i + j]) /\ ok[i, j - 1])
     IN ok[Len(a), Len(b)]
EvProgIdx == {1, 2, 4}
EvLayout(i) == AddEvents(Layout(Optimize(Progs[i], MaskOf(i), DefaultCfg)))

=============================================================================
