------------------------------ MODULE ConcProgs ------------------------------
(* The programs and bindings of the concurrency family (Concurrent.tla and      *)
(* JudgeConc.tla; harness/fam_conc.go has the same list, by index).             *)
EXTENDS Machine

\* the fixed program list (the harness has the same list, by index)
Progs == <<O("and", <<O("f", <<V("x")>>), O("or", <<V("y"), O("g", <<V("n")>>)>>)>>),
           O("+", <<O("f", <<V("n")>>), O("*", <<V("n"), V("m")>>)>>),
           O("or", <<O("and", <<V("x"), V("y")>>), O(">", <<O("-", <<V("n"), V("m")>>), O("g", <<V("m")>>)>>)>>),
           If(O("f", <<V("x")>>), O("+", <<V("n"), V("m")>>), O("g", <<V("n")>>)),
           O("eq", <<O("+", <<V("n"), V("n")>>), O("f", <<V("m")>>), O("-", <<V("m"), V("n")>>)>>)>>
MaskOf(i) == IF i % 2 = 0 THEN [cf |-> TRUE, rn |-> TRUE, fe |-> TRUE, ro |-> FALSE] ELSE AllOff
EnvA == [x |-> B(TRUE), y |-> B(FALSE), n |-> I(2), m |-> I(1)]
EnvB == [x |-> B(FALSE), y |-> B(TRUE), n |-> I(5), m |-> I(3)]
EnvC == [x |-> B(TRUE), y |-> B(TRUE), n |-> I(2), m |-> I(2)]
EnvOf(p) == CASE p = 1 -> EnvA [] p = 2 -> EnvB [] OTHER -> EnvC
\* a process that runs TryEval does so with one variable unavailable (the harness has the same rule)
AllVars == {"x", "y", "n", "m"}
Unavail(p) == IF p % 2 = 0 THEN {"y"} ELSE {"n"}
AvOf(p) == AllVars \ Unavail(p)

=============================================================================
