-------------------------------- MODULE MCReg --------------------------------
(***************************************************************************)
(* Property C11 at model level: every registration history over the names  *)
(* a..d starting from every pre-populated key map with distinct keys over  *)
(* {-32768, -2, 0, 1, 2, 3, 254, 255, 256, 32767}: the key map stays       *)
(* injective, assignments never change, registering a known name changes   *)
(* nothing; RegVarAndOp is registration in an arbitrary order.             *)
(***************************************************************************)
EXTENDS Registry
CONSTANT Big
N == {"a", "b", "c", "d"}
PreKeys == IF Big THEN {-32768, -2, 0, 1, 2, 3, 254, 255, 256, 32767} ELSE {-2, 0, 1, 3, 255, 256}
PreMaps == UNION {{f \in [D -> PreKeys] : Injective(f)} : D \in {S \in SUBSET N : Cardinality(S) <= 2}}

VARIABLES km, prev, last
vars == <<km, prev, last>>
Init == km \in PreMaps /\ prev = km /\ last = [name |-> "", key |-> 0]
Reg(n) == /\ prev' = km
          /\ km' = Register(km, n)
          /\ last' = [name |-> n, key |-> KeyFor(km, n)]
Next == \E n \in N : Reg(n)
Spec == Init /\ [][Next]_vars

InjectiveInv == Injective(km)
StableInv == Extends(prev, km)
Idempotent == last.name # "" => (km[last.name] = last.key /\ (last.name \in DOMAIN prev => km = prev))
\* a new key never collides and is positive
FreshKey == (last.name # "" /\ last.name \notin DOMAIN prev) => (last.key \notin Keys(prev) /\ last.key >= 1)
\* the functional rule (FirstFree, what the judge steps real histories through) and the relational
\* rule of RegistryInd.tla (what Apalache proves inductive over all integer keys) are the same rule
RuleAgrees == (last.name # "" /\ last.name \notin DOMAIN prev) =>
                (IsFirstFree(prev, last.key) /\ \A k \in 1..(Cardinality(DOMAIN prev) + 1) : IsFirstFree(prev, k) => k = last.key)
=============================================================================
