------------------------------- MODULE MCFetch -------------------------------
(***************************************************************************)
(* The library contexts as a state machine: a context is built by          *)
(* NewCtxFromVars from every small key map (keys over a set that straddles *)
(* both limits of the slice fetcher) and every partial value map, then     *)
(* Get/Set/Cached steps are taken with registered and unregistered         *)
(* (key, name) pairs.  Checked in every state:                             *)
(*   - Truthful: a cached registered variable can be read;                 *)
(*   - SliceAllAvail: a slice context reports every registered variable    *)
(*     available, with nil for one that has no value;                      *)
(*   - MapAvail: a map context reports exactly the names with a value;     *)
(*   - KindInv: the slice is chosen exactly when keys fit 0..255;          *)
(*   - SetGet (action): after a successful Set the same pair reads back    *)
(*     the value and is cached; no other registered variable changes.      *)
(***************************************************************************)
EXTENDS Fetchers
CONSTANT Big
Names == IF Big THEN {"a", "b", "c"} ELSE {"a", "b"}
KeyPool == IF Big THEN {-32768, -1, 0, 1, 2, 255, 256, 300} ELSE {-1, 0, 1, 255, 256}
\* (values by index: a TLC set cannot hold values of different kinds)
ValSeq == <<I(1), B(TRUE), NIL>>
Injective(f) == \A x, y \in DOMAIN f : f[x] = f[y] => x = y
KeyMaps == UNION {{f \in [D -> KeyPool] : Injective(f)} : D \in SUBSET Names}
Partial(D) == UNION {[X -> {1, 2}] : X \in SUBSET D}
ValsOf(g) == [n \in DOMAIN g |-> ValSeq[g[n]]]
\* the pairs the engine can pass: registered pairs, an unregistered name with the undefined key,
\* and (for robustness) a key just past the slice
Pairs(m) == {<<m[n], n>> : n \in DOMAIN m} \cup {<<-32768, "u">>, <<256, "u">>, <<1, "u">>}

VARIABLES km, undef, f, gidx, last
vars == <<km, undef, f, gidx, last>>
given == ValsOf(gidx)
Init == /\ km \in KeyMaps /\ undef \in BOOLEAN
        /\ gidx \in Partial(Names \cup {"u"})
        /\ f = NewCtx(km, undef, ValsOf(gidx))
        /\ last = [op |-> "new", key |-> 0, name |-> "", val |-> NIL, res |-> NIL, before |-> f]
DoGet == \E p \in Pairs(km) :
           /\ last' = [op |-> "get", key |-> p[1], name |-> p[2], val |-> NIL, res |-> Get(f, p[1], p[2]), before |-> f]
           /\ UNCHANGED <<km, undef, f, gidx>>
DoSet == \E p \in Pairs(km), vi \in 1..3 :
           LET v == ValSeq[vi]
               s == Set(f, p[1], p[2], v) IN
           /\ f' = s.f
           /\ last' = [op |-> "set", key |-> p[1], name |-> p[2], val |-> v, res |-> s.res, before |-> f]
           /\ UNCHANGED <<km, undef, gidx>>
Next == DoGet \/ DoSet
Spec == Init /\ [][Next]_vars

\* negative keys only reach a slice through a (key, name) pair that is not registered
TruthfulInv == Truthful(f, km)
KindInv == (f.kind = "slice") <=> (~undef /\ km # <<>> /\ \A n \in DOMAIN km : km[n] \in 0..255)
SliceAllAvail == f.kind = "slice" => Avail(f, km) = DOMAIN km
MapAvail == f.kind = "map" => \A n \in DOMAIN km : Cached(f, km[n], n) <=> n \in DOMAIN f.cells
InitialBinding ==
  last.op = "new" =>
    \A n \in DOMAIN km :
      IF f.kind = "slice" THEN VEq(Get(f, km[n], n), IF n \in DOMAIN given THEN given[n] ELSE NIL)
      ELSE (n \in DOMAIN given => VEq(Get(f, km[n], n), given[n])) /\ (n \notin DOMAIN given => ~Cached(f, km[n], n))
SetGet ==
  (last.op = "set" /\ VEq(last.res, B(TRUE))) =>
    /\ VEq(Get(f, last.key, last.name), last.val)
    /\ Cached(f, last.key, last.name)
    /\ \A n \in DOMAIN km : (km[n] # last.key /\ n # last.name) => VEq(Get(f, km[n], n), Get(last.before, km[n], n))
SetFailsUnchanged == (last.op = "set" /\ ~VEq(last.res, B(TRUE))) =>
                       \A n \in DOMAIN km : VEq(Get(f, km[n], n), Get(last.before, km[n], n))
\* bound the exploration: a context is interesting for a few steps only
Bounded == TLCGet("level") < (IF Big THEN 3 ELSE 4)
=============================================================================
