------------------------------ MODULE MCLayout ------------------------------
(***************************************************************************)
(* Property C14 at model level: every text over the alphabet up to MaxLen  *)
(* (built character by character) satisfies FormatterPreserves, also when  *)
(* the formatter is applied twice; and relayout steps (inserting a space,  *)
(* a newline or a comment between two tokens) never change the tokens.     *)
(***************************************************************************)
EXTENDS Formatter
CONSTANTS MaxLen, StringAware
Chars == {"(", ")", "[", ",", ";", "Q", "SP", "NL", "a", "1", "NBSP"}
VARIABLE s
Init == s = <<>>
Next == Len(s) < MaxLen /\ \E c \in Chars : s' = Append(s, c)
Spec == Init /\ [][Next]_s

Preserves == FormatterPreserves(s, StringAware)
PreservesTwice == SameTokens(Lex(Format(Format(s, StringAware), StringAware), FALSE), Lex(s, FALSE))
\* infix notation lexes `!x` differently; the formatter must preserve those tokens too
PreservesInfix == SameTokens(Lex(Format(s, StringAware), TRUE), Lex(s, TRUE))

\* relayout: white space / comments inserted at a token boundary of s
TokensOf(t) == NoComments(Lex(t, FALSE).toks)
Boundary(k) == \* position k (insert before s[k]) is between two tokens: outside any string / comment / token
  LET pre == SubSeq(s, 1, k - 1)  post == SubSeq(s, k, Len(s)) IN
  ~Lex(pre, FALSE).err /\ ~Lex(post, FALSE).err /\ ~Lex(s, FALSE).err
  /\ (pre = <<>> \/ Lex(pre, FALSE).toks = <<>> \/ Lex(pre, FALSE).toks[Len(Lex(pre, FALSE).toks)].ty # "comment" \/ pre[Len(pre)] = "NL")
  /\ Lex(pre, FALSE).toks \o Lex(post, FALSE).toks = Lex(s, FALSE).toks
Insert(k, w) == SubSeq(s, 1, k - 1) \o w \o SubSeq(s, k, Len(s))
LayoutInvariant ==
  \A k \in 1..(Len(s) + 1) :
     Boundary(k) => \A w \in {<<"SP">>, <<"NL">>, <<"NBSP", "SP">>, <<";", "a", "NL">>, <<"SP", ";", ";", "NL">>} :
                       TokensOf(Insert(k, w)) = TokensOf(s)
=============================================================================
