----------------------------- MODULE Semantics -----------------------------
(***************************************************************************)
(* The ABSTRACT layer: what the properties mean.  Trees, and the reference *)
(* meaning of a tree under a binding.  Nothing here knows about flat       *)
(* programs, jumps or stacks.                                              *)
(*                                                                         *)
(* A tree is [k, v, kids]:                                                 *)
(*   k = "c"  constant leaf, v a tagged value                              *)
(*   k = "v"  variable leaf, v the name                                    *)
(*   k = "o"  operator application (k = "f": the same, marked fast by the  *)
(*            optimizer), v the operator name as written                   *)
(*   k = "if" conditional, kids = <<cond, then, else>>                     *)
(* A binding `env` is a function from variable names to tagged values; a   *)
(* name outside its domain fails to fetch with the sentinel "fetch:<name>".*)
(***************************************************************************)
EXTENDS Operators

Leaf(t) == t.k \in {"c", "v"}
IsOp(t) == t.k \in {"o", "f"}
IsAnd(t) == IsOp(t) /\ t.v \in AndNames
IsOr(t) == IsOp(t) /\ t.v \in OrNames
IsBoolOp(t) == IsAnd(t) \/ IsOr(t)

C(v) == [k |-> "c", v |-> v, kids |-> <<>>]
V(n) == [k |-> "v", v |-> n, kids |-> <<>>]
O(n, ks) == [k |-> "o", v |-> n, kids |-> ks]
If(c, a, b) == [k |-> "if", v |-> "if", kids |-> <<c, a, b>>]

Lookup(env, name) == IF name \in DOMAIN env THEN env[name] ELSE E("fetch:" \o name)

RECURSIVE NodeCount(_)
NodeCount(t) ==
  LET n == Len(t.kids)
      RECURSIVE sum(_, _)
      sum(i, acc) == IF i > n THEN acc ELSE sum(i + 1, acc + NodeCount(t.kids[i]))
  IN sum(1, 1)

RECURSIVE VarsOf(_)
VarsOf(t) == IF t.k = "v" THEN {t.v}
             ELSE UNION {VarsOf(t.kids[i]) : i \in 1..Len(t.kids)}

(***************************************************************************)
(* Den: the documented semantics.  Left to right; `and`/`or` short-circuit *)
(* on the first deciding operand; `if` evaluates only the chosen branch;   *)
(* the first failing sub-expression reached determines the error.          *)
(* For and/or the documented domain is two or more boolean-typed (or       *)
(* failing) operands; outside it the reference answers with the distinct   *)
(* kinds "count:boolop" / "type:boolop" so that judges can tell "outside    *)
(* the stated domain" from an ordinary operator error.                     *)
(***************************************************************************)
RECURSIVE Den(_, _)
Den(t, env) ==
  CASE t.k = "c" -> t.v
    [] t.k = "v" -> Lookup(env, t.v)
    [] t.k = "if" ->
         LET c == Den(t.kids[1], env) IN
         IF ~Ok(c) THEN c
         ELSE IF ~IsBool(c) THEN E("cond")
         ELSE IF c.v THEN Den(t.kids[2], env) ELSE Den(t.kids[3], env)
    [] IsBoolOp(t) ->
         LET n == Len(t.kids)
             RECURSIVE go(_, _)
             go(i, acc) ==
               IF i > n THEN B(acc)
               ELSE LET r == Den(t.kids[i], env) IN
                    IF ~Ok(r) THEN r
                    ELSE IF ~IsBool(r) THEN E("type:boolop")
                    ELSE IF (IsAnd(t) /\ ~r.v) \/ (IsOr(t) /\ r.v) THEN r
                    ELSE go(i + 1, r.v)
         IN IF n < 2 THEN E("count:boolop") ELSE go(1, IsAnd(t))
    [] OTHER ->
         LET n == Len(t.kids)
             RECURSIVE go(_, _)
             go(i, acc) ==
               IF i > n THEN ApplyAny(t.v, acc)
               ELSE LET r == Den(t.kids[i], env) IN
                    IF ~Ok(r) THEN r ELSE go(i + 1, Append(acc, r))
         IN go(1, <<>>)

OutOfDomain(r) == IsErr(r) /\ r.v \in {"count:boolop", "type:boolop"}

(***************************************************************************)
(* DenAll: the same, but `and`/`or` evaluate EVERY operand (no short       *)
(* circuit).  Total(t, env): "evaluating every reachable operand           *)
(* succeeds" -- the condition under which C02 requires all optimization    *)
(* subsets (including Reordering) to return the same value.                *)
(***************************************************************************)
RECURSIVE DenAll(_, _)
DenAll(t, env) ==
  CASE t.k = "c" -> t.v
    [] t.k = "v" -> Lookup(env, t.v)
    [] t.k = "if" ->
         LET c == DenAll(t.kids[1], env) IN
         IF ~Ok(c) THEN c
         ELSE IF ~IsBool(c) THEN E("cond")
         ELSE IF c.v THEN DenAll(t.kids[2], env) ELSE DenAll(t.kids[3], env)
    [] OTHER ->
         LET n == Len(t.kids)
             RECURSIVE go(_, _)
             go(i, acc) ==
               IF i > n THEN (IF IsBoolOp(t)
                              THEN (IF n < 2 THEN E("count:boolop")
                                    ELSE IF \E j \in 1..n : ~IsBool(acc[j]) THEN E("type:boolop")
                                    ELSE Apply(t.v, acc))
                              ELSE ApplyAny(t.v, acc))
               ELSE LET r == DenAll(t.kids[i], env) IN
                    IF ~Ok(r) THEN r ELSE go(i + 1, Append(acc, r))
         IN go(1, <<>>)
Total(t, env) == Ok(DenAll(t, env))

(***************************************************************************)
(* Kleene: three-valued evaluation with DNE as "unknown" for variables     *)
(* outside `av`.  Errors of sub-expressions propagate as E("some") (C05    *)
(* only speaks about expressions none of whose sub-expressions fail).      *)
(***************************************************************************)
RECURSIVE Kleene(_, _, _)
Kleene(t, env, av) ==
  CASE t.k = "c" -> t.v
    [] t.k = "v" -> IF t.v \in av THEN Lookup(env, t.v) ELSE DNE
    [] t.k = "if" ->
         LET c == Kleene(t.kids[1], env, av) IN
         IF ~Ok(c) \/ IsDNE(c) THEN c
         ELSE IF ~IsBool(c) THEN E("cond")
         ELSE IF c.v THEN Kleene(t.kids[2], env, av) ELSE Kleene(t.kids[3], env, av)
    [] OTHER ->
         LET n == Len(t.kids)
             \* (built with Append: a [i \in 1..n |-> ...] function is re-evaluated by TLC at
             \* every application, which makes the recursion exponential in the depth)
             RECURSIVE col(_, _)
             col(i, acc) == IF i > n THEN acc ELSE col(i + 1, Append(acc, Kleene(t.kids[i], env, av)))
             vs == col(1, <<>>)
         IN IF \E i \in 1..n : ~Ok(vs[i]) THEN (IF \E i \in 1..n : IsWide(vs[i]) THEN E("wide") ELSE E("some"))
            ELSE IF IsAnd(t) /\ Has(vs, B(FALSE)) THEN B(FALSE)
            ELSE IF IsOr(t) /\ Has(vs, B(TRUE)) THEN B(TRUE)
            ELSE IF Has(vs, DNE) THEN DNE
            ELSE IF IsBoolOp(t) /\ (n < 2 \/ \E i \in 1..n : ~IsBool(vs[i])) THEN E("some")
            ELSE ApplyAny(t.v, vs)

\* No sub-expression fails under any reading: strict evaluation of every
\* sub-expression (both branches of every `if`, every and/or operand) succeeds.
RECURSIVE StrictAll(_, _)
StrictAll(t, env) ==   \* one pass: every operand and BOTH branches of every `if` are evaluated
  CASE t.k = "c" -> t.v
    [] t.k = "v" -> Lookup(env, t.v)
    [] t.k = "if" ->
         LET c == StrictAll(t.kids[1], env)
             a == StrictAll(t.kids[2], env)
             b == StrictAll(t.kids[3], env)
         IN IF ~Ok(c) THEN c ELSE IF ~IsBool(c) THEN E("cond")
            ELSE IF ~Ok(a) THEN a ELSE IF ~Ok(b) THEN b
            ELSE IF c.v THEN a ELSE b
    [] OTHER ->
         LET n == Len(t.kids)
             RECURSIVE go(_, _)
             go(i, acc) ==
               IF i > n THEN (IF IsBoolOp(t)
                              THEN (IF n < 2 THEN E("count:boolop")
                                    ELSE IF \E j \in 1..n : ~IsBool(acc[j]) THEN E("type:boolop")
                                    ELSE Apply(t.v, acc))
                              ELSE ApplyAny(t.v, acc))
               ELSE LET r == StrictAll(t.kids[i], env) IN
                    IF ~Ok(r) THEN r ELSE go(i + 1, Append(acc, r))
         IN go(1, <<>>)
NoSubFails(t, env) == Ok(StrictAll(t, env))

(***************************************************************************)
(* Effects.  An effect log is a sequence of                                *)
(*   [k |-> "get", n |-> name]                         variable fetch      *)
(*   [k |-> "call", n |-> op, ps |-> params, r |-> result]  custom op call *)
(* Match(t, env, log, fast) decides whether `log` is a log that            *)
(* left-to-right short-circuit evaluation of `t` may produce, where -- the *)
(* one relaxation property C03 permits -- an operator whose two operands   *)
(* are both leaves may fetch both before applying when `fast` is set.      *)
(* It runs the evaluation as a transducer over a SET of log positions      *)
(* (the relaxation is "permitted, not required", so two positions can be   *)
(* live at once).  Results of the stateful operator `h` are read from the  *)
(* log; every other custom result is checked against `Custom`.             *)
(***************************************************************************)
IsGet(log, p, name) == p <= Len(log) /\ log[p].k = "get" /\ log[p].n = name
IsCall(log, p, name, ps) ==
  /\ p <= Len(log) /\ log[p].k = "call" /\ log[p].n = name
  /\ Len(log[p].ps) = Len(ps)
  /\ \A i \in 1..Len(ps) : VEq(log[p].ps[i], ps[i])

\* state of the transducer: [v |-> value, P |-> set of positions]
RECURSIVE Tr(_, _, _, _, _)
Tr(t, env, log, fast, P) ==
  CASE t.k = "c" -> [v |-> t.v, P |-> P]
    [] t.k = "v" -> [v |-> Lookup(env, t.v), P |-> {p + 1 : p \in {q \in P : IsGet(log, q, t.v)}}]
    [] t.k = "if" ->
         LET c == Tr(t.kids[1], env, log, fast, P) IN
         IF ~Ok(c.v) THEN c
         ELSE IF ~IsBool(c.v) THEN [v |-> E("cond"), P |-> c.P]
         ELSE IF c.v.v THEN Tr(t.kids[2], env, log, fast, c.P) ELSE Tr(t.kids[3], env, log, fast, c.P)
    [] OTHER ->
         LET n == Len(t.kids)
             bop == IsBoolOp(t)
             twoLeaf == fast /\ n = 2 /\ Leaf(t.kids[1]) /\ Leaf(t.kids[2])
             apply(acc, Q) ==
               IF t.v \in CustomNames
               THEN LET QQ == {q \in Q : IsCall(log, q, t.v, acc)} IN
                    IF t.v = "h"
                    THEN (IF QQ = {} THEN [v |-> E("nomatch"), P |-> {}]
                          ELSE LET q0 == CHOOSE q \in QQ : \A r \in QQ : q <= r IN
                               [v |-> log[q0].r, P |-> {q + 1 : q \in {r \in QQ : VEq(log[r].r, log[q0].r)}}])
                    ELSE LET res == Custom(t.v, acc) IN
                         [v |-> res, P |-> {q + 1 : q \in {r \in QQ : OutcomeEq(log[r].r, res)}}]
               ELSE [v |-> Apply(t.v, acc), P |-> Q]
             RECURSIVE go(_, _, _)
             go(i, acc, Q) ==
               IF i > n THEN apply(acc, Q)
               ELSE LET r == Tr(t.kids[i], env, log, fast, Q) IN
                    IF ~Ok(r.v) THEN r
                    ELSE IF bop /\ IsBool(r.v) /\ ((IsAnd(t) /\ ~r.v.v) \/ (IsOr(t) /\ r.v.v))
                         THEN \* decided: later operands are skipped ...
                              IF twoLeaf /\ i = 1
                              THEN \* ... except that a fast two-leaf operator may also fetch its second leaf
                                   LET r2 == Tr(t.kids[2], env, log, fast, r.P) IN
                                   [v |-> r.v, P |-> r.P \cup (IF Ok(r2.v) THEN r2.P ELSE {})]
                              ELSE r
                         ELSE IF bop /\ i = n /\ IsBool(r.v) THEN r
                         ELSE go(i + 1, Append(acc, r.v), r.P)
         IN go(1, <<>>, P)

Match(t, env, log, fast) ==
  LET r == Tr(t, env, log, fast, {1}) IN (Len(log) + 1) \in r.P

(***************************************************************************)
(* AppSeq: the sequence of applications <<name, params, result>> of every  *)
(* operator other than and/or (whose own invocation is decided by the      *)
(* engine's last-child jump, an implementation detail) performed by        *)
(* left-to-right short-circuit evaluation of t.  Used by C12 to judge the  *)
(* OP_EXEC stream.  `hres` supplies results of the stateful operator h in  *)
(* call order.                                                             *)
(***************************************************************************)
RECURSIVE Apps(_, _, _)
Apps(t, env, acc0) ==   \* returns [v |-> value, a |-> applications so far]
  CASE t.k = "c" -> [v |-> t.v, a |-> acc0]
    [] t.k = "v" -> [v |-> Lookup(env, t.v), a |-> acc0]
    [] t.k = "if" ->
         LET c == Apps(t.kids[1], env, acc0) IN
         IF ~Ok(c.v) THEN c
         ELSE IF ~IsBool(c.v) THEN [v |-> E("cond"), a |-> c.a]
         ELSE IF c.v.v THEN Apps(t.kids[2], env, c.a) ELSE Apps(t.kids[3], env, c.a)
    [] OTHER ->
         LET n == Len(t.kids)
             bop == IsBoolOp(t)
             RECURSIVE go(_, _, _)
             go(i, ps, a) ==
               IF i > n
               THEN LET res == ApplyAny(t.v, ps) IN
                    [v |-> res, a |-> IF bop THEN a ELSE Append(a, [n |-> t.v, ps |-> ps, r |-> res])]
               ELSE LET r == Apps(t.kids[i], env, a) IN
                    IF ~Ok(r.v) THEN r
                    ELSE IF bop /\ IsBool(r.v) /\ ((IsAnd(t) /\ ~r.v.v) \/ (IsOr(t) /\ r.v.v) \/ i = n) THEN r
                    ELSE go(i + 1, Append(ps, r.v), r.a)
         IN go(1, <<>>, acc0)
AppSeq(t, env) == Apps(t, env, <<>>).a
=============================================================================
