------------------------------- MODULE JudgeDump -------------------------------
(***************************************************************************)
(* Trace validation for property C13: Dump -> Compile (optimizations off,  *)
(* same names) -> Dump on the real code.                                   *)
(***************************************************************************)
EXTENDS Dump, Json, IOUtils

Trace == ndJsonDeserialize(IOEnv.OBS)
VARIABLES l, judged, nontriv, skipped, drift, found
vars == <<l, judged, nontriv, skipped, drift, found>>
Idx(q) == 1..Len(q)
Card(X) == Cardinality(X)
SameRes(a, b) == Len(a) = Len(b) /\ \A i \in Idx(a) : OutcomeEq(a[i], b[i])
AllOffM(m) == ~m.cf /\ ~m.rn /\ ~m.fe /\ ~m.ro

F(r) ==
  IF r.cout # "ok" \/ r.scalar THEN {} ELSE
  LET mk(sig) == {<<"C13", r.id, 0, 0, sig>>} IN
  \* the dump compiles under the same names ...
  (IF r.cout2 # "ok" THEN mk("dump-does-not-compile") ELSE {})
  \* ... to a program with the same results on every binding ...
  \cup (IF r.cout2 = "ok" /\ ~SameRes(r.res1, r.res2) THEN mk("meaning-differs") ELSE {})
  \* ... whose own dump reproduces the text exactly
  \cup (IF r.cout2 = "ok" /\ r.d2text # r.d1text THEN mk("not-a-fixed-point") ELSE {})
  \* regardless of event / debug mode
  \cup (IF r.d1noev # r.d1text THEN mk("event-mode-changes-dump") ELSE {})
K(r) == {f \in F(r) : r.special /\ f[5] \in {"dump-does-not-compile", "meaning-differs", "not-a-fixed-point"}}
Drifts(r) ==
  IF r.cout = "ok" /\ AllOffM(r.m) /\ DumpText(r.ctree, TRUE, TRUE) # r.d1 THEN {<<"DRIFT", r.id, 0, "dump-text">>} ELSE {}

Init == l = 1 /\ judged = 0 /\ nontriv = 0 /\ skipped = 0 /\ drift = 0 /\ found = 0
Next ==
  /\ l <= Len(Trace)
  /\ l' = l + 1
  /\ LET r == Trace[l]
         F0 == F(r)
         Ks == K(r)
         D == Drifts(r)
         inDom == r.cout = "ok" /\ ~r.scalar
     IN /\ \A f \in F0 \ Ks : PrintT(<<"F", f[1], f[2], f[3], f[4], f[5]>>)
        /\ \A f \in Ks : PrintT(<<"K", f[1], f[2], f[3], f[4], "F-C13-1">>)
        /\ \A f \in D : PrintT(<<"DRIFT", f[2], f[3], f[4]>>)
        /\ judged' = judged + (IF inDom THEN 1 ELSE 0)
        /\ nontriv' = nontriv + (IF inDom /\ r.special THEN 1 ELSE 0)
        /\ skipped' = skipped + (IF inDom THEN 0 ELSE 1)
        /\ drift' = drift + (IF r.cout = "ok" /\ AllOffM(r.m) THEN 1 ELSE 0)
        /\ found' = found + Card(F0 \ Ks)
Spec == Init /\ [][Next]_vars
Done == l = Len(Trace) + 1 => PrintT(<<"SUMMARY", l - 1, judged, nontriv, skipped, drift, found>>)
Accepted == TLCGet("stats").diameter - 1 = Len(Trace)
=============================================================================
