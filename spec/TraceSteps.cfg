SPECIFICATION Spec
INVARIANT Done StackSafe
PROPERTY PcMonotone
CHECK_DEADLOCK FALSE
