----------------------------- MODULE Operators -----------------------------
(***************************************************************************)
(* The built-in operator table of onheap/eval (operator.go) with every     *)
(* alias, transcribed case by case: arity checks, type checks and their    *)
(* order, left folds, zero-divisor check at every position, n-ary `eq`,    *)
(* inclusive `between`, `in` / `overlap` with the scan and the hash path,   *)
(* version and date encodings.  Integers are TLC integers here; the int64  *)
(* extremes are handled by Int64.tla (property C18).                        *)
(*                                                                         *)
(* `Apply` is the INTENDED behaviour (what the properties state).  Every    *)
(* place where the pinned code was observed to deviate is a named          *)
(* deviation handled by `ApplyAsBuilt`; see known_findings.json.           *)
(***************************************************************************)
EXTENDS Values

AndNames == {"and", "&", "&&"}
OrNames == {"or", "|", "||"}

\* alias -> canonical name (operator.go:25-86)
Canon(op) ==
  CASE op \in {"add", "+"} -> "add"
    [] op \in {"sub", "-"} -> "sub"
    [] op \in {"mul", "*"} -> "mul"
    [] op \in {"div", "/"} -> "div"
    [] op \in {"mod", "%"} -> "mod"
    [] op \in AndNames -> "and"
    [] op \in OrNames -> "or"
    [] op = "xor" -> "xor"
    [] op \in {"not", "!"} -> "not"
    [] op \in {"eq", "=", "=="} -> "eq"
    [] op \in {"ne", "!="} -> "ne"
    [] op \in {"gt", ">"} -> "gt"
    [] op \in {"lt", "<"} -> "lt"
    [] op \in {"ge", ">="} -> "ge"
    [] op \in {"le", "<="} -> "le"
    [] op = "between" -> "between"
    [] op = "in" -> "in"
    [] op = "overlap" -> "overlap"
    [] op \in {"date", "to_date"} -> "date"
    [] op \in {"datetime", "to_datetime"} -> "datetime"
    [] op \in {"t_time", "t_date", "td_time", "td_date"} -> op
    [] op \in {"version", "to_version"} -> "version"
    [] op = "t_version" -> "t_version"
    [] OTHER -> "?"

BuiltinNames ==
  {"add", "sub", "mul", "div", "mod", "+", "-", "*", "/", "%",
   "and", "or", "xor", "not", "&", "|", "!",
   "eq", "ne", "gt", "lt", "ge", "le", "=", "!=", ">", "<", ">=", "<=", "between",
   "in", "overlap",
   "date", "datetime", "to_date", "to_datetime", "t_time", "t_date", "td_time", "td_date",
   "version", "t_version", "to_version",
   "==", "&&", "||"}

IsBuiltin(op) == op \in BuiltinNames

\* Go integer division truncates toward zero; TLA+ \div floors.
Abs(a) == IF a < 0 THEN -a ELSE a
TruncDiv(a, b) == LET q == Abs(a) \div Abs(b) IN IF (a < 0) = (b < 0) THEN q ELSE -q
TruncMod(a, b) == a - b * TruncDiv(a, b)

\* ---- arithmetic: left fold, count check first, then per operand: type, zero ----
Arith(mode, ps) ==
  IF Len(ps) < 2 THEN E("count")
  ELSE LET RECURSIVE go(_, _)
           go(acc, i) ==
             IF i > Len(ps) THEN I(acc)
             ELSE IF ps[i].t # "i" THEN E("type")
             ELSE LET v == ps[i].v IN
                  \* TLC integers are 32-bit and overflow is a TLC run-time error: a result that may
                  \* leave the window is the distinct outcome E("wide") (judges count it as unjudged)
                  IF Abs(acc) > 1000000000 \/ Abs(v) > 1000000000 THEN E("wide")
                  ELSE IF mode = "mul" /\ v # 0 /\ Abs(acc) > 1000000000 \div Abs(v) THEN E("wide")
                  ELSE
                  CASE mode = "add" -> go(acc + v, i + 1)
                    [] mode = "sub" -> go(acc - v, i + 1)
                    [] mode = "mul" -> go(acc * v, i + 1)
                    [] mode = "div" -> IF v = 0 THEN E("div0") ELSE go(TruncDiv(acc, v), i + 1)
                    [] mode = "mod" -> IF v = 0 THEN E("div0") ELSE go(TruncMod(acc, v), i + 1)
       IN IF ps[1].t # "i" THEN E("type") ELSE go(ps[1].v, 2)

\* ---- logic folds ----
Logic(mode, ps) ==
  IF Len(ps) < 2 THEN E("count")
  ELSE LET RECURSIVE go(_, _)
           go(acc, i) ==
             IF i > Len(ps) THEN B(acc)
             ELSE IF ps[i].t # "b" THEN E("type")
             ELSE LET v == ps[i].v IN
                  CASE mode = "and" -> go(acc /\ v, i + 1)
                    [] mode = "or" -> go(acc \/ v, i + 1)
                    [] mode = "xor" -> go(acc # v, i + 1)
       IN IF ps[1].t # "b" THEN E("type") ELSE go(ps[1].v, 2)

Not(ps) == IF Len(ps) # 1 THEN E("count")
           ELSE IF ps[1].t # "b" THEN E("type") ELSE B(~ps[1].v)

\* ---- ordering comparisons: exactly two int64 ----
Cmp(mode, ps) ==
  IF Len(ps) # 2 THEN E("count")
  ELSE IF ps[1].t # "i" THEN E("type")
  ELSE IF ps[2].t # "i" THEN E("type")
  ELSE LET a == ps[1].v  b == ps[2].v IN
       CASE mode = "gt" -> B(a > b)
         [] mode = "lt" -> B(a < b)
         [] mode = "ge" -> B(a >= b)
         [] mode = "le" -> B(a <= b)

\* ---- equality.  Intended: comparing two lists/sets is a type error (the    ----
\* ---- property: "result or error, never panic"); as built it panics.        ----
EqPairBad(a, b) == GoEqPanics(a, b)
Eq(ps) ==
  IF Len(ps) < 2 THEN E("count")
  ELSE IF Len(ps) = 2
       THEN IF EqPairBad(ps[1], ps[2]) THEN E("type") ELSE B(VEq(ps[1], ps[2]))
       ELSE \* n-ary: compares params[0] with every param, itself first
            IF Uncomparable(ps[1]) THEN E("type")
            ELSE B(\A i \in 1..Len(ps) : VEq(ps[1], ps[i]))
Ne(ps) ==
  IF Len(ps) # 2 THEN E("count")
  ELSE IF EqPairBad(ps[1], ps[2]) THEN E("type") ELSE B(~VEq(ps[1], ps[2]))

Between(ps) ==
  IF Len(ps) # 3 THEN E("count")
  ELSE IF ps[1].t # "i" \/ ps[2].t # "i" \/ ps[3].t # "i" THEN E("type")
  ELSE B(ps[2].v <= ps[1].v /\ ps[1].v <= ps[3].v)

\* ---- in ----
In(ps) ==
  IF Len(ps) # 2 THEN E("count")
  ELSE LET v == ps[1]  c == ps[2] IN
       CASE v.t = "s" ->
              (CASE c.t \in {"sl", "ss"} -> B(v.v \in Range(c.v))
                 [] OTHER -> E("type"))
         [] v.t = "i" ->
              (CASE c.t \in {"il", "is"} -> B(v.v \in Range(c.v))
                 [] c.t = "sl" -> IF c.v = <<>> THEN B(FALSE) ELSE E("type")
                 [] OTHER -> E("type"))
         [] OTHER -> E("exec")

\* ---- overlap.  HashAt is the combined length from which the hash path is used.
\* Both paths are written out the way the code takes them; OverlapAbs is the
\* abstract meaning they must agree with (property C17).
OverlapAbs(X, Y) == Range(X) \cap Range(Y) # {}
OverlapScan(X, Y) == \E i \in 1..Len(X) : \E j \in 1..Len(Y) : X[i] = Y[j]
OverlapHash(X, Y) ==
  LET short == IF Len(X) > Len(Y) THEN Y ELSE X
      long == IF Len(X) > Len(Y) THEN X ELSE Y
      set == Range(short)
  IN \E i \in 1..Len(long) : long[i] \in set
OverlapImpl(X, Y, hashAt) ==
  IF Len(X) + Len(Y) < hashAt THEN OverlapScan(X, Y) ELSE OverlapHash(X, Y)

\* Intended (property C17): the empty literal `()` (an empty []string) is an
\* empty list of either element type ON EITHER SIDE.
Overlap(ps) ==
  IF Len(ps) # 2 THEN E("count")
  ELSE LET A == ps[1]  Bv == ps[2] IN
       CASE A.t = "sl" ->
              (CASE Bv.t = "sl" -> B(OverlapImpl(A.v, Bv.v, 100))
                 [] Bv.t = "il" /\ A.v = <<>> -> B(FALSE)
                 [] OTHER -> E("type"))
         [] A.t = "il" ->
              (CASE Bv.t = "il" -> B(OverlapImpl(A.v, Bv.v, 100))
                 [] Bv.t = "sl" -> IF Bv.v = <<>> THEN B(FALSE) ELSE E("type")
                 [] OTHER -> E("type"))
         [] OTHER -> E("type")

\* ---- version encoding (operator.go:535-574) on component sequences.
\* A component is a natural number, or -1 for "not a number" (empty / letters).
\* The driver supplies the components of every version string it uses.
VersionEnc(comps, validLen) ==
  LET RECURSIVE go(_, _)
      go(i, acc) ==
        IF i > validLen THEN I(acc)
        ELSE IF i <= Len(comps)
             THEN IF comps[i] < 0 \/ comps[i] >= 10000 THEN E("exec")
                  ELSE go(i + 1, acc * 10000 + comps[i])
             ELSE go(i + 1, acc * 10000)
  IN go(1, 0)

\* Strings the evaluator families use as version / date literals, with their
\* meaning.  (C19 supplies components / fields explicitly instead.)
VerTable == [s \in {"1.2.3", "1.2", "1.10", "2", "0.0.1"} |->
               CASE s = "1.2.3" -> <<1, 2, 3>> [] s = "1.2" -> <<1, 2>> [] s = "1.10" -> <<1, 10>>
                 [] s = "2" -> <<2>> [] s = "0.0.1" -> <<0, 0, 1>>]
StrComps(s) == IF s \in DOMAIN VerTable THEN VerTable[s] ELSE <<-1>>

Version(ps) ==
  LET arity == Len(ps) IN
  IF arity \notin {1, 2} THEN E("count")
  ELSE IF arity = 2 /\ ps[2].t # "i" THEN E("type")
  ELSE IF arity = 2 /\ (ps[2].v > 4 \/ ps[2].v < 1) THEN E("exec")
  ELSE IF ps[1].t # "s" THEN E("type")
  ELSE VersionEnc(StrComps(ps[1].v), IF arity = 2 THEN ps[2].v ELSE 3)

\* dates in the evaluator families: a table of literal strings -> Unix days
DateTable == [s \in {"1970-01-01", "1970-01-02", "2000-03-01"} |->
               CASE s = "1970-01-01" -> 0 [] s = "1970-01-02" -> 86400 [] s = "2000-03-01" -> 951868800]
Date(op, ps) ==
  LET c == Canon(op) IN
  IF c \in {"date", "datetime"} /\ Len(ps) \notin {1, 2} THEN E("count")
  ELSE IF c \in {"t_time", "t_date"} /\ Len(ps) # 2 THEN E("count")
  ELSE IF c \in {"td_time", "td_date"} /\ Len(ps) # 1 THEN E("count")
  ELSE IF Len(ps) = 2 /\ ps[2].t # "s" THEN E("type")
  ELSE IF ps[1].t # "s" THEN E("type")
  ELSE IF Len(ps) = 1 /\ c \in {"date", "td_date"} /\ ps[1].v \in DOMAIN DateTable THEN I(DateTable[ps[1].v])
  ELSE E("exec")

\* ---- the table ----
Apply(op, ps) ==
  LET c == Canon(op) IN
  CASE c \in {"add", "sub", "mul", "div", "mod"} -> Arith(c, ps)
    [] c \in {"and", "or", "xor"} -> Logic(c, ps)
    [] c = "not" -> Not(ps)
    [] c \in {"gt", "lt", "ge", "le"} -> Cmp(c, ps)
    [] c = "eq" -> Eq(ps)
    [] c = "ne" -> Ne(ps)
    [] c = "between" -> Between(ps)
    [] c = "in" -> In(ps)
    [] c = "overlap" -> Overlap(ps)
    [] c \in {"version", "t_version"} -> Version(ps)
    [] c \in {"date", "datetime", "t_time", "t_date", "td_time", "td_date"} -> Date(op, ps)
    [] OTHER -> E("other")

(***************************************************************************)
(* Registered (custom) operators the harness implements verbatim.          *)
(*   f  identity on its first parameter, not declared stateless            *)
(*   p  identity on its first parameter, declared in StatelessOperators    *)
(*   g  fails with sentinel "op:g" when its first parameter is int 2       *)
(*   one  takes no parameters, returns 1                                   *)
(*   h  stateful: returns how many times it has been called (value taken   *)
(*      from the observation, never predicted)                             *)
(***************************************************************************)
CustomNames == {"f", "p", "g", "h", "one", "zt", "zf", "boom"}
Custom(name, ps) ==
  CASE name = "one" -> I(1)                      \* zero-operand operator: pushes a value without popping any
    [] name = "zt" -> B(TRUE)                    \* zero-operand operators that can decide an and/or
    [] name = "zf" -> B(FALSE)
    [] name \in {"f", "p"} -> ps[1]
    [] name = "g" -> IF VEq(ps[1], I(2)) THEN E("op:g") ELSE ps[1]
    [] name = "boom" -> IF VEq(ps[1], I(2)) THEN Panic("boom") ELSE ps[1]   \* a registered operator that panics
    [] OTHER -> E("other")

ApplyAny(op, ps) == IF op \in CustomNames THEN Custom(op, ps) ELSE Apply(op, ps)

(***************************************************************************)
(* As-built deviations of the pinned tree (operator level).  Each returns  *)
(* <<name, outcome>> when the deviation applies to this call, else <<>>.   *)
(***************************************************************************)
DevEqPanic(op, ps) ==
  \* F-C06-5: `=`/`!=`/n-ary eq on two lists or sets panics in Go's interface ==
  LET c == Canon(op) IN
  IF c \in {"eq", "ne"} /\ Len(ps) >= 2 /\
     ((Len(ps) = 2 /\ GoEqPanics(ps[1], ps[2])) \/ (Len(ps) > 2 /\ c = "eq" /\ Uncomparable(ps[1])))
  THEN <<"F-C06-5", Panic("uncomparable")>> ELSE <<>>
DevOverlapEmptyLeft(op, ps) ==
  \* F-C17-1: `(overlap () <int list>)` is a type error
  IF Canon(op) = "overlap" /\ Len(ps) = 2 /\ ps[1].t = "sl" /\ ps[1].v = <<>> /\ ps[2].t = "il"
  THEN <<"F-C17-1", E("type")>> ELSE <<>>
OpDeviation(op, ps) ==
  LET a == DevEqPanic(op, ps)  b == DevOverlapEmptyLeft(op, ps) IN
  IF a # <<>> THEN a ELSE b
=============================================================================
