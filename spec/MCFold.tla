------------------------------- MODULE MCFold -------------------------------
(***************************************************************************)
(* Property C10 at model level: constant folding respects operator purity  *)
(* and defers failures to run time.  Trees mix constants, variables,       *)
(* built-in operators, the stateless-declared p, the undeclared f and the  *)
(* stateful h, with failing constants `(/ 1 0)` at guarded and unguarded   *)
(* positions.  Each configured program is evaluated three times in a row   *)
(* (the h counter carries over), every machine step is a TLC state.        *)
(***************************************************************************)
EXTENDS Machine, Json

CONSTANT Big

Cfg == DefaultCfg
BL == {C(B(TRUE)), C(B(FALSE)), V("x")}
IL0 == {C(I(0)), C(I(1)), V("n")}
\* integer-typed sub-expressions: failing constant, good constant, stateless / undeclared / stateful calls
IE == IL0 \cup {O("/", <<C(I(1)), b>>) : b \in IL0}
          \cup {O("p", <<C(I(1))>>), O("f", <<C(I(1))>>), O("h", <<C(I(0))>>), O("p", <<V("n")>>)}
          \cup {O("+", <<a, b>>) : a \in {C(I(1)), O("f", <<C(I(1))>>), O("p", <<C(I(1))>>)}, b \in {C(I(1)), V("n")}}
BE == BL \cup {O(">", <<a, C(I(0))>>) : a \in IE} \cup {O("not", <<a>>) : a \in BL}
Trees1 == {O(o, <<a, b>>) : o \in {"and", "or"}, a \in BE, b \in BE}
Trees2 == {O(o, <<a, b, c>>) : o \in {"and", "or"}, a \in BL, b \in BE \ BL, c \in BL}
          \cup {If(c, a, b) : c \in BE \ BL, a \in BL, b \in {O(">", <<O("/", <<C(I(1)), C(I(0))>>), C(I(0))>>)}}
          \cup {O(o, <<O(o2, <<a, b>>), c>>) : o \in {"and", "or"}, o2 \in {"and", "or"}, a \in BE \ BL, b \in {C(B(TRUE)), C(B(FALSE))}, c \in {V("x"), C(B(FALSE))}}
Trees == IF Big THEN Trees1 \cup Trees2 ELSE {t \in Trees1 : t.kids[2] \in BL \/ t.kids[1] \in BL} \cup
                                             {t \in Trees2 : t.k = "if" \/ t.kids[1] \in {V("x"), C(B(FALSE))}}
Envs == {[x |-> B(bx), n |-> I(nn)] : bx \in BOOLEAN, nn \in {0, 1}}
MaskSet == {m \in Masks : m.cf} \cup {AllOff}

(***************************************************************************)
(* The property, stated independently of CFc.  Decided(t) is the constant  *)
(* value t may legitimately be replaced by, or NIL:                        *)
(*  - a constant; - a stateless operator applied to decided operands whose *)
(*    call succeeds; - an and/or one of whose operands is decided to the   *)
(*    absorbing constant.  Variables, undeclared operators and failing     *)
(*    calls are never decided.                                             *)
(***************************************************************************)
RECURSIVE Decided(_)
Decided(t) ==
  IF t.k = "c" THEN t.v
  ELSE IF ~IsOp(t) THEN NIL
  ELSE LET n == Len(t.kids)
           RECURSIVE col(_, _)
           col(i, acc) == IF i > n THEN acc ELSE col(i + 1, Append(acc, Decided(t.kids[i])))
           ds == col(1, <<>>)
       IN IF ~(IsBuiltin(t.v) \/ t.v \in Cfg.stateless) THEN NIL
          ELSE IF IsAnd(t) /\ Has(ds, B(FALSE)) THEN B(FALSE)
          ELSE IF IsOr(t) /\ Has(ds, B(TRUE)) THEN B(TRUE)
          ELSE IF \E i \in 1..n : ds[i].t = "nil" THEN NIL
          ELSE LET r == ApplyAny(t.v, ds) IN IF Ok(r) THEN r ELSE NIL

\* u is an acceptable folding of t: constants appear only where t is decided, with the decided value
RECURSIVE FoldOK(_, _)
FoldOK(t, u) ==
  IF u.k = "c" /\ t.k # "c" THEN VEq(Decided(t), u.v)
  ELSE /\ u.k = t.k
       /\ (IF t.k = "c" THEN VEq(t.v, u.v) ELSE t.v = u.v)
       /\ Len(t.kids) = Len(u.kids)
       /\ \A i \in 1..Len(t.kids) : FoldOK(t.kids[i], u.kids[i])

VARIABLES tree, mask, env, T, L, s, rep, lens
vars == <<tree, mask, env, T, L, s, rep, lens>>

Init == /\ tree \in Trees /\ mask = AllOff /\ env = [x |-> B(TRUE), n |-> I(0)]
        /\ T = tree /\ L = <<>> /\ s = [st |-> "cfg"] /\ rep = 0 /\ lens = <<>>
Configure == /\ s.st = "cfg"
             /\ mask' \in MaskSet /\ env' \in Envs
             /\ T' = Optimize(tree, mask', Cfg)
             /\ L' = Layout(T')
             /\ s' = InitState(L', 0)
             /\ rep' = 1 /\ lens' = <<>>
             /\ UNCHANGED tree
StepM == /\ s.st = "run"
         /\ s' = EvalNext(L, env, s, FALSE, TRUE)
         /\ UNCHANGED <<tree, mask, env, T, L, rep, lens>>
Again == /\ s.st = "done" /\ rep < 3
         /\ s' = InitState(L, s.hc)
         /\ rep' = rep + 1
         /\ lens' = Append(lens, Len(s.eff))
         /\ UNCHANGED <<tree, mask, env, T, L>>
Next == Configure \/ StepM \/ Again
Spec == Init /\ [][Next]_vars

NoPanic == s.st \in {"cfg", "run", "done"}
\* (a) the calls constant folding makes at compile time
CompileCallsOnlyStateless ==
  \A i \in 1..Len(CFCalls(tree, Cfg).calls) :
     LET c == CFCalls(tree, Cfg).calls[i] IN IsBuiltin(c) \/ c \in Cfg.stateless
\* (d) + "never baked": the folded tree has constants only where the property permits
FoldPermitted == FoldOK(tree, CFc(tree, Cfg))
\* (c) failure deferred: with Reordering off the optimized program returns the plain
\*     value whenever plain evaluation succeeds (h excluded: its value is history)
RECURSIVE Mentions(_, _)
Mentions(t, nm) == (t.k # "c" /\ t.v = nm) \/ \E i \in 1..Len(t.kids) : Mentions(t.kids[i], nm)
FailureDeferred ==
  (s.st = "done" /\ ~mask.ro /\ ~Mentions(tree, "h")) =>
     LET d == Den(tree, env) IN (Ok(d) => OutcomeEq(s.res, d)) /\ (~Ok(s.res) => ~Total(tree, env))
\* (b) every evaluation performs the calls again: same number of effects each time,
\*     and they are the effects of evaluating the optimized tree
NotBaked ==
  /\ (s.st = "done" => Match(Unfast(T), env, s.eff, mask.fe))
  /\ \A i \in 1..Len(lens) : lens[i] = lens[1]
  /\ (s.st = "done" /\ Len(lens) > 0 => Len(s.eff) = lens[1])
\* every tree of the bounded set is printed once, for replay against the real code
EmitTrees == (s.st = "cfg") => PrintT("CASE " \o ToJson(tree))
=============================================================================
