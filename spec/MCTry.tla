-------------------------------- MODULE MCTry --------------------------------
(***************************************************************************)
(* Exhaustive bounded model check of TryEval (properties C04, C05): for    *)
(* every tree of the bounded set, option subsets (Reordering = any         *)
(* permutation), every binding and every available/unavailable split, the  *)
(* TryEval machine is stepped state by state and, when it is done,         *)
(* compared with the Eval machine under EVERY completion of the            *)
(* unavailable variables and with three-valued (Kleene) evaluation.        *)
(***************************************************************************)
EXTENDS Machine, Json

CONSTANTS Big

BLeaves == {C(B(TRUE)), C(B(FALSE)), V("x"), V("y")}
ILeaves == {C(I(0)), C(I(2)), V("n")}
I1 == ILeaves \cup {O("/", <<a, b>>) : a \in {C(I(2)), V("n")}, b \in ILeaves}
B1core == {O(o, <<a, b>>) : o \in {"and", "or"}, a \in BLeaves, b \in BLeaves}
          \cup {O("not", <<a>>) : a \in {V("x"), V("y")}} \cup {O("f", <<a>>) : a \in {V("x"), C(B(TRUE))}}
          \cup {O(">", <<a, b>>) : a \in I1, b \in {C(I(0))}}
          \cup {O("eq", <<a, b>>) : a \in {V("x")}, b \in {V("y"), C(B(TRUE))}}
Ifs == {If(c, a, b) : c \in {V("x"), C(B(FALSE))}, a \in BLeaves, b \in {V("y"), C(B(TRUE))}}
B1 == B1core \cup Ifs
B2 == {O(o, <<a, b>>) : o \in {"and", "or"}, a \in B1, b \in {V("x"), V("y"), C(B(TRUE)), C(B(FALSE))}}
      \cup {O(o, <<b, a>>) : o \in {"and", "or"}, a \in B1, b \in {V("y"), C(B(TRUE))}}
      \cup {O(o, <<a, b, c>>) : o \in {"and", "or"}, a \in B1core, b \in {V("x")}, c \in {V("y"), C(B(FALSE))}}
      \cup {If(c, a, b) : c \in B1core, a \in {V("x"), C(B(TRUE))}, b \in {V("y")}}
      \cup {If(c, a, b) : c \in {V("x")}, a \in B1core, b \in {V("y"), C(B(FALSE))}}
      \* an `if` followed by a sibling that can fail (the shape of finding F-C04-1)
      \cup {O(o, <<If(V("x"), a, b), O(">", <<O("/", <<C(I(2)), V("n")>>), C(I(0))>>)>>) :
               o \in {"and", "or"}, a \in {C(B(TRUE)), C(B(FALSE)), V("y")}, b \in {C(B(TRUE)), C(B(FALSE))}}
B3 == {O(o, <<a, b>>) : o \in {"and", "or"}, a \in {t \in B2 : t.k = "if" \/ (Len(t.kids) = 2 /\ t.kids[2] = V("x"))}, b \in {V("y")}}
      \cup {O(o, <<O(o2, <<If(V("x"), a, V("y")), V("n0")>>), V("y")>>) : o \in {"and", "or"}, o2 \in {"and", "or"}, a \in {C(B(TRUE)), C(B(FALSE))}}
Trees == IF Big THEN B2 \cup B3 ELSE {t \in B2 : Cardinality(VarsOf(t)) >= 2}

Vars == {"x", "y", "n"}
MaskSet == IF Big THEN Masks
           ELSE {AllOff, [cf |-> TRUE, rn |-> TRUE, fe |-> TRUE, ro |-> TRUE],
                 [cf |-> FALSE, rn |-> FALSE, fe |-> TRUE, ro |-> FALSE], [cf |-> FALSE, rn |-> TRUE, fe |-> FALSE, ro |-> TRUE]}
Envs == {[x |-> B(bx), y |-> B(by), n |-> I(nn), n0 |-> B(FALSE)] : bx \in BOOLEAN, by \in BOOLEAN, nn \in {0, 2}}
Cfg == DefaultCfg
OptSet(t, m) ==
  LET u == Optimize(t, [m EXCEPT !.ro = FALSE], Cfg) IN IF m.ro THEN ReorderAny(u) ELSE {u}
\* completions: every assignment of the unavailable variables
Completions(e, av) == {e2 \in Envs : \A v \in av \cup {"n0"} : VEq(e2[v], e[v])}

VARIABLES tree, mask, env, av, T, L, s
vars == <<tree, mask, env, av, T, L, s>>
Init == /\ tree \in Trees /\ mask = AllOff /\ env = [x |-> B(TRUE), y |-> B(TRUE), n |-> I(0), n0 |-> B(FALSE)]
        /\ av = {} /\ T = tree /\ L = <<>> /\ s = [st |-> "cfg"]
Configure == /\ s.st = "cfg"
             /\ mask' \in MaskSet /\ env' \in Envs /\ av' \in SUBSET (Vars \cap VarsOf(tree))
             /\ T' \in OptSet(tree, mask')
             /\ L' = Layout(T')
             /\ s' = InitState(L', 0)
             /\ UNCHANGED tree
StepM == /\ s.st = "run"
         /\ s' = TryNext(L, env, av \cup {"n0"}, s, FALSE, TRUE)
         /\ UNCHANGED <<tree, mask, env, av, T, L>>
Next == Configure \/ StepM
Spec == Init /\ [][Next]_vars /\ WF_vars(StepM)

Done == s.st = "done"
TV == Vars \cap VarsOf(tree)
NoPanic == s.st \in {"cfg", "run", "done"}
StackSafe == s.st = "cfg" \/ (s.top >= 0 /\ s.top <= L.max /\ s.hw <= L.max)
PcMonotone == [][(s.st = "run" /\ s'.st = "run") => s'.pc > s.pc]_vars
Terminates == <>(s.st # "run")

\* ---- C04
Sound == (Done /\ Definite(s.res)) =>
           \A e2 \in Completions(env, av) : LET r == Run(L, e2).res IN Ok(r) => VEq(r, s.res)
AgreeWhenAll == (Done /\ av = TV) =>
                  /\ ~IsDNE(s.res)
                  /\ LET r == Run(L, env).res IN (Ok(r) /\ Ok(s.res)) => VEq(r, s.res)
Monotone == (Done /\ Definite(s.res)) =>
              \A av2 \in SUBSET TV : av \subseteq av2 =>
                 LET r == TryRun(L, env, av2 \cup {"n0"}).res IN Definite(r) => VEq(r, s.res)
\* strict agreement (both fail or both succeed); violated as built by the pinned code:
\* a value decided inside an `if` branch does not stop TryEval from evaluating a later
\* failing operand that Eval skips (finding F-C04-1).  Checked only in cfg/MCTry.asbuilt.cfg.
AgreeStrict == (Done /\ av = TV) => (Ok(s.res) <=> Ok(Run(L, env).res))

\* ---- C05
K == Kleene(tree, env, av \cup {"n0"})
InDomain == NoSubFails(tree, env)
Informative == (Done /\ InDomain /\ Definite(K)) => VEq(s.res, K)
UndecidedIsDNE == (Done /\ InDomain /\ IsDNE(K)) => (IsDNE(s.res) \/ Definite(s.res))
\* every tree of the bounded set is printed once, for replay against the real code
EmitTrees == (s.st = "cfg") => PrintT("CASE " \o ToJson(tree))
=============================================================================
