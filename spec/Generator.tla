------------------------------ MODULE Generator ------------------------------
(***************************************************************************)
(* GenerateRandomExpr (util.go:83-220) as a recursive consumer of a script *)
(* of random draws.  A draw is the raw 31-bit value c the generator's      *)
(* source produces; Intn(n) is c % n (after Go's rejection of the few      *)
(* values above the largest multiple of n, which is modelled too).         *)
(* Gen returns [st |-> "done", tree, res, p] or [st |-> "need", n] when    *)
(* the script is exhausted (n = the argument of the pending Intn call), so *)
(* that a model checker can extend the script draw by draw.                *)
(*                                                                         *)
(* cfg: [var, cond, try : BOOLEAN, type : "b" | "i",                       *)
(*       nums, bools, dnes : sequences of [name, val]]                     *)
(***************************************************************************)
EXTENDS Semantics

\* (2^31) % n without leaving 32 bits
Pow31Mod(n) == ((1073741824 % n) * 2) % n
MaxFor(n) == 2147483647 - Pow31Mod(n)
IsPow2(n) == n \in {1, 2, 4, 8, 16, 32, 64, 128}
\* Intn(n) at script position p: [st, v, p]
Intn(script, p, n) ==
  LET RECURSIVE go(_)
      go(q) == IF q > Len(script) THEN [st |-> "need", n |-> n, p |-> q]
               ELSE IF IsPow2(n) \/ script[q] <= MaxFor(n) THEN [st |-> "ok", v |-> script[q] % n, p |-> q + 1]
               ELSE go(q + 1)
  IN go(p)

TrueLeaf == O("=", <<C(I(0)), C(I(0))>>)
FalseLeaf == O("!=", <<C(I(0)), C(I(0))>>)
\* execOp of the generator: three-valued and/or, DNE poisons, otherwise the built-in operator
ExecOp(op, ps) ==
  IF op = "and" /\ Has(ps, B(FALSE)) THEN B(FALSE)
  ELSE IF op = "or" /\ Has(ps, B(TRUE)) THEN B(TRUE)
  ELSE IF Has(ps, DNE) THEN DNE
  ELSE Apply(op, ps)

BoolMulti == <<"and", "or", "eq">>
NumSafe == <<"+", "-", "*">>
NumAll == <<"+", "-", "*", "/", "%">>

RECURSIVE Helper(_, _, _, _, _)
Helper(cfg, script, p0, ty, n) ==    \* [st, tree, res, p] | [st |-> "need", n]
  LET d1 == Intn(script, p0, 10) IN
  IF d1.st = "need" THEN d1 ELSE
  LET r == d1.v IN
  IF n = 0 THEN
     LET d2 == Intn(script, d1.p, 100) IN
     IF d2.st = "need" THEN d2 ELSE
     LET v == d2.v
         pick(q) == LET e == q[(v % Len(q)) + 1] IN [st |-> "done", tree |-> V(e.name), res |-> e.val, p |-> d2.p]
     IN IF r = 1 /\ cfg.try /\ Len(cfg.dnes) # 0 THEN pick(cfg.dnes)
        ELSE IF ty = "b" THEN
               (IF r < 4 /\ cfg.var /\ Len(cfg.bools) # 0 THEN pick(cfg.bools)
                ELSE IF v < 50 THEN [st |-> "done", tree |-> TrueLeaf, res |-> B(TRUE), p |-> d2.p]
                ELSE [st |-> "done", tree |-> FalseLeaf, res |-> B(FALSE), p |-> d2.p])
        ELSE (IF r < 4 /\ cfg.var /\ Len(cfg.nums) # 0 THEN pick(cfg.nums)
              ELSE [st |-> "done", tree |-> C(I(v - 50)), res |-> I(v - 50), p |-> d2.p])
  ELSE IF ty = "b" /\ r < 3 THEN
     LET c == Helper(cfg, script, d1.p, ty, n - 1) IN
     IF c.st = "need" THEN c
     ELSE [st |-> "done", tree |-> O("not", <<c.tree>>), res |-> ExecOp("not", <<c.res>>), p |-> c.p]
  ELSE IF cfg.cond /\ r = 3 THEN
     LET l1 == Intn(script, d1.p, n) IN IF l1.st = "need" THEN l1 ELSE
     LET c == Helper(cfg, script, l1.p, "b", l1.v) IN IF c.st = "need" THEN c ELSE
     LET l2 == Intn(script, c.p, n) IN IF l2.st = "need" THEN l2 ELSE
     LET a == Helper(cfg, script, l2.p, ty, l2.v) IN IF a.st = "need" THEN a ELSE
     LET l3 == Intn(script, a.p, n) IN IF l3.st = "need" THEN l3 ELSE
     LET b == Helper(cfg, script, l3.p, ty, l3.v) IN IF b.st = "need" THEN b ELSE
     [st |-> "done", tree |-> If(c.tree, a.tree, b.tree), p |-> b.p,
      res |-> IF VEq(c.res, B(TRUE)) THEN a.res ELSE IF VEq(c.res, B(FALSE)) THEN b.res ELSE DNE]
  ELSE
     LET dl == Intn(script, d1.p, 3) IN IF dl.st = "need" THEN dl ELSE
     LET cnt == dl.v + 2
         RECURSIVE kids(_, _, _, _)
         kids(i, p, ts, rs) ==
           IF i > cnt THEN [st |-> "done", ts |-> ts, rs |-> rs, p |-> p]
           ELSE LET lv == Intn(script, p, n) IN IF lv.st = "need" THEN lv ELSE
                LET c == Helper(cfg, script, lv.p, ty, lv.v) IN IF c.st = "need" THEN c
                ELSE kids(i + 1, c.p, Append(ts, c.tree), Append(rs, c.res))
         ks == kids(1, dl.p, <<>>, <<>>)
     IN IF ks.st = "need" THEN ks ELSE
        LET safe == \A i \in 2..cnt : ~VEq(ks.rs[i], I(0))
            op == IF ty = "b" THEN BoolMulti[(r % 3) + 1]
                  ELSE IF safe THEN NumAll[(r % 5) + 1] ELSE NumSafe[(r % 3) + 1]
        IN [st |-> "done", tree |-> O(op, ks.ts), res |-> ExecOp(op, ks.rs), p |-> ks.p]

Gen(cfg, script, level) == Helper(cfg, script, 1, cfg.type, level)

\* ---- the property ----
EnvOf(cfg) ==
  LET all == cfg.nums \o cfg.bools IN
  [nm \in {all[i].name : i \in 1..Len(all)} |-> (CHOOSE i \in 1..Len(all) : all[i].name = nm) ]
ValOf(cfg, nm) == LET all == cfg.nums \o cfg.bools IN all[CHOOSE i \in 1..Len(all) : all[i].name = nm].val
Env(cfg) == LET all == cfg.nums \o cfg.bools IN [nm \in {all[i].name : i \in 1..Len(all)} |-> ValOf(cfg, nm)]
DneNames(cfg) == {cfg.dnes[i].name : i \in 1..Len(cfg.dnes)}
\* dne variables have SOME value the generator does not know: every completion
DneEnv(cfg, val) == [nm \in DOMAIN Env(cfg) \cup DneNames(cfg) |-> IF nm \in DneNames(cfg) THEN val ELSE Env(cfg)[nm]]
ReportsTruth(cfg, tree, res) ==
  IF VarsOf(tree) \cap DneNames(cfg) = {}
  THEN VEq(res, Den(tree, Env(cfg)))
  ELSE VEq(res, Kleene(tree, DneEnv(cfg, B(TRUE)), DOMAIN Env(cfg)))
OnlyGivenVars(cfg, tree) == VarsOf(tree) \subseteq DOMAIN Env(cfg) \cup DneNames(cfg)
=============================================================================
