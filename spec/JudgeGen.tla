-------------------------------- MODULE JudgeGen --------------------------------
(***************************************************************************)
(* Trace validation for property C20: runs of the real GenerateRandomExpr  *)
(* (seeded sources with recorded draws, and TLC-generated scripts).        *)
(* Property level: the reported result is the value the reference          *)
(* semantics gives the generated tree (Den / Kleene), only given variables *)
(* occur, the expression compiles and evaluates without failing.           *)
(* Drift: Generator!Gen on the recorded draws produces the same tree and   *)
(* the same result.                                                        *)
(***************************************************************************)
EXTENDS Generator, Layout, Json, IOUtils

Trace == ndJsonDeserialize(IOEnv.OBS)
VARIABLES l, judged, nontriv, skipped, drift, found
vars == <<l, judged, nontriv, skipped, drift, found>>
Card(X) == Cardinality(X)

\* values that may leave TLC's integer window are not judged (never a violation)
RefVal(r) == IF VarsOf(r.tree) \cap DneNames(r.cfg) = {} THEN Den(r.tree, Env(r.cfg))
             ELSE Kleene(r.tree, DneEnv(r.cfg, B(TRUE)), DOMAIN Env(r.cfg))
Judgeable(r) == r.gout = "ok" /\ ~r.wide /\ ~IsWide(RefVal(r))
F(r) ==
  LET mk(sig) == {<<"C20", r.id, 0, 0, sig>>} IN
  (IF r.gout = "panic" THEN mk("generator-panics") ELSE {})
  \cup (IF r.gout = "unparsable" THEN mk("not-an-expression") ELSE {})
  \cup (IF r.gout = "ok" /\ r.cout = "fails" THEN mk("does-not-compile") ELSE {})
  \cup (IF r.gout = "ok" /\ r.cout = "bare-leaf" THEN mk("bare-leaf") ELSE {})
  \cup (IF r.gout = "ok" /\ ~OnlyGivenVars(r.cfg, r.tree) THEN mk("unknown-variable") ELSE {})
  \* the values the generator works with are the values of the map it was given (as it is when the option is applied)
  \cup (IF \E k \in 1..Len(r.cfg.nums \o r.cfg.bools) :
             LET e == (r.cfg.nums \o r.cfg.bools)[k] IN
             ~\E j \in 1..Len(r.given) : r.given[j].name = e.name /\ VEq(r.given[j].val, e.val)
        THEN mk("generator-uses-other-values-than-it-was-given") ELSE {})
  \cup (IF Judgeable(r) /\ ~ReportsTruth(r.cfg, r.tree, r.res) THEN mk("reported-result-wrong") ELSE {})
  \cup (IF Judgeable(r) /\ VarsOf(r.tree) \cap DneNames(r.cfg) = {} /\ ~Ok(Den(r.tree, Env(r.cfg))) THEN mk("expression-fails") ELSE {})
  \cup (IF r.gout = "ok" /\ r.cout = "ok" /\ ~(r.eval.t \in {"b", "i", "d", "w"}) THEN mk("evaluation-fails") ELSE {})
  \cup (IF r.gout = "ok" /\ r.cout = "ok" /\ r.eval.t \in {"b", "i", "d"} /\ r.res.t \in {"b", "i", "d"} /\ ~VEq(r.eval, r.res)
        THEN mk("engine-disagrees") ELSE {})
\* F-C20-1: at level 0 a variable or a number is returned bare, which prefix notation does not accept
K(r) == {f \in F(r) : f[5] = "bare-leaf" /\ r.level = 0 /\ r.tree.k \in {"c", "v"}}
Drifts(r) ==
  IF ~Judgeable(r) THEN {} ELSE
  LET g == Gen(r.cfg, r.draws, r.level) IN
  IF g.st = "done" /\ IsWide(g.res) THEN {} ELSE
  IF g.st # "done" \/ ~TreeEq(g.tree, r.tree) \/ ~VEq(g.res, r.res) \/ g.p # Len(r.draws) + 1
  THEN {<<"DRIFT", r.id, 0, "generator">>} ELSE {}

Init == l = 1 /\ judged = 0 /\ nontriv = 0 /\ skipped = 0 /\ drift = 0 /\ found = 0
Next ==
  /\ l <= Len(Trace)
  /\ l' = l + 1
  /\ LET r == Trace[l]
         F0 == F(r)
         Ks == K(r)
         D == Drifts(r)
     IN /\ \A f \in F0 \ Ks : PrintT(<<"F", f[1], f[2], f[3], f[4], f[5]>>)
        /\ \A f \in Ks : PrintT(<<"K", f[1], f[2], f[3], f[4], "F-C20-1">>)
        /\ \A f \in D : PrintT(<<"DRIFT", f[2], f[3], f[4]>>)
        /\ judged' = judged + (IF Judgeable(r) THEN 1 ELSE 0)
        /\ nontriv' = nontriv + (IF Judgeable(r) /\ NodeCount(r.tree) >= 5 THEN 1 ELSE 0)
        /\ skipped' = skipped + (IF Judgeable(r) THEN 0 ELSE 1)
        /\ drift' = drift + (IF Judgeable(r) THEN 1 ELSE 0)
        /\ found' = found + Card(F0 \ Ks)
Spec == Init /\ [][Next]_vars
Done == l = Len(Trace) + 1 => PrintT(<<"SUMMARY", l - 1, judged, nontriv, skipped, drift, found>>)
Accepted == TLCGet("stats").diameter - 1 = Len(Trace)
=============================================================================
