------------------------------- MODULE MCDump -------------------------------
(***************************************************************************)
(* Property C13 at model level.  Trees with string / int / list literals   *)
(* whose contents range over every class of character the lexer can put    *)
(* inside a literal; Dump text -> lexer -> prefix parser must give the     *)
(* tree back (Recompiles + SameTree, hence SameMeaning), and dumping the   *)
(* re-parsed tree reproduces the text (FixedPoint).  LexInvertsQuote is    *)
(* checked for EVERY literal content up to MaxStr characters.              *)
(* Raw = FALSE / DepthIndent = FALSE is the pinned code (F-C13-1).         *)
(***************************************************************************)
EXTENDS Dump
CONSTANTS MaxStr, Raw, DepthIndent

Content == {"a", "SP", "(", ")", ";", ",", "[", "BS", "NL", "TAB", "NBSP", "E", "CTL"}
\* trees here carry names and operator names as character sequences
Vc(n) == [k |-> "v", v |-> <<n>>, kids |-> <<>>]
Oc(n, ks) == [k |-> "o", v |-> n, kids |-> ks]
Sc(s) == C([t |-> "s", v |-> s])

VARIABLE s
Init == s = <<>>
Next == Len(s) < MaxStr /\ \E c \in Content : s' = Append(s, c)
Spec == Init /\ [][Next]_s

LexInverts == LexInvertsQuote(s, Raw)

\* the literal s planted at several depths of a tree
Shapes == {Oc(<<"=">>, <<Vc("s"), Sc(s)>>),
           Oc(<<"a", "n", "d">>, <<Oc(<<"=">>, <<Vc("s"), Sc(s)>>), Vc("x")>>),
           Oc(<<"a", "n", "d">>, <<Vc("x"), Oc(<<"o", "r">>, <<Oc(<<"i", "n">>, <<Vc("s"), C([t |-> "sl", v |-> <<s, <<"a">>>>])>>), Vc("y")>>)>>),
           Oc(<<"i", "f">>, <<Vc("x"), Sc(s), Oc(<<"f">>, <<Sc(s), C(I(-12))>>)>>),
           Oc(<<"f">>, <<C([t |-> "il", v |-> <<-1, 20>>]), C([t |-> "sl", v |-> <<>>]), Oc(<<"g">>, <<>>)>>)}

\* re-read a dump: tokens -> tree with character-sequence names (a structural reader
\* over tokens, the same shape as Parser!PExpr without name resolution)
RECURSIVE RdExpr(_, _)
RdExpr(T, i) ==
  IF i > Len(T) THEN [r |-> "err"]
  ELSE LET t == T[i] IN
    CASE t.ty = "integer" -> [r |-> "ok", n |-> C(I(IntVal(t.tx))), next |-> i + 1]
      [] t.ty = "str" -> [r |-> "ok", n |-> Sc(t.tx), next |-> i + 1]
      [] t.ty = "ident" -> [r |-> "ok", n |-> (IF t.tx = <<"t", "r", "u", "e">> THEN C(B(TRUE))
                                              ELSE IF t.tx = <<"f", "a", "l", "s", "e">> THEN C(B(FALSE)) ELSE [k |-> "v", v |-> t.tx, kids |-> <<>>]),
                           next |-> i + 1]
      [] t.ty = "lParen" ->
           IF i + 1 > Len(T) THEN [r |-> "err"]
           ELSE IF T[i + 1].ty \in {"rParen", "integer", "str"}
           THEN LET RECURSIVE scan(_, _)
                    scan(j, acc) == IF j > Len(T) THEN [r |-> "err"]
                                    ELSE IF T[j].ty = "rParen" THEN [r |-> "ok", es |-> acc, next |-> j + 1]
                                    ELSE IF T[j].ty # T[i + 1].ty THEN [r |-> "err"]
                                    ELSE scan(j + 1, Append(acc, T[j]))
                    sc == scan(i + 1, <<>>)
                IN IF sc.r # "ok" THEN [r |-> "err"]
                   ELSE [r |-> "ok", next |-> sc.next,
                         n |-> C(IF T[i + 1].ty = "integer" THEN [t |-> "il", v |-> [k \in 1..Len(sc.es) |-> IntVal(sc.es[k].tx)]]
                                 ELSE [t |-> "sl", v |-> [k \in 1..Len(sc.es) |-> sc.es[k].tx]])]
           ELSE IF T[i + 1].ty # "ident" THEN [r |-> "err"]
           ELSE LET RECURSIVE kids(_, _)
                    kids(j, acc) == IF j > Len(T) THEN [r |-> "err"]
                                    ELSE IF T[j].ty = "rParen" THEN [r |-> "ok", ks |-> acc, next |-> j + 1]
                                    ELSE LET c == RdExpr(T, j) IN IF c.r # "ok" THEN [r |-> "err"] ELSE kids(c.next, Append(acc, c.n))
                    ks == kids(i + 2, <<>>)
                IN IF ks.r # "ok" THEN [r |-> "err"] ELSE [r |-> "ok", n |-> Oc(T[i + 1].tx, ks.ks), next |-> ks.next]
      [] OTHER -> [r |-> "err"]
ReRead(text) ==
  LET lx == Lex(text, FALSE) IN
  IF lx.err THEN [r |-> "err"]
  ELSE LET T == NoComments(lx.toks)  e == RdExpr(T, 1) IN
       IF e.r = "ok" /\ e.next = Len(T) + 1 THEN [r |-> "ok", tree |-> e.n] ELSE [r |-> "err"]

\* Dump text re-reads to the same tree (so it recompiles under the same names to a
\* program with the same meaning) ...
RoundTrips == \A t \in Shapes : LET rr == ReRead(DumpText(t, Raw, DepthIndent)) IN rr.r = "ok" /\ rr.tree = t
\* ... and dumping the re-read tree reproduces the text exactly
FixedPoint == \A t \in Shapes : LET rr == ReRead(DumpText(t, Raw, DepthIndent)) IN
                                rr.r = "ok" => DumpText(rr.tree, Raw, DepthIndent) = DumpText(t, Raw, DepthIndent)
=============================================================================
