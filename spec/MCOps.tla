-------------------------------- MODULE MCOps --------------------------------
(***************************************************************************)
(* Properties C17, C18, C19 at model level: the operator table itself.     *)
(* A state is a parameter vector (built value by value); the invariants    *)
(* are the laws the properties state, evaluated on Operators!Apply:        *)
(*  C18  ne = ~eq, le = ~gt, ge = ~lt, between = le /\ le, n-ary fold =    *)
(*       nested binary, zero divisor at ANY later position is an error,    *)
(*       alias == canonical, every operator is total (value or error);     *)
(*       Int64 (the limb arithmetic the judges use for int64 extremes)     *)
(*       agrees with TLC's integers wherever both apply, and DivModOK      *)
(*       accepts exactly Go's truncated quotient / remainder               *)
(*  C17  scan path = hash path = set semantics for every pair of lists,    *)
(*       overlap symmetric, empty literal on either side, sets accepted,   *)
(*       type mismatch is an error                                         *)
(*  C19  version encoding is order preserving, rejects what it must        *)
(***************************************************************************)
EXTENDS Operators, Int64, TLC
CONSTANT Fam

\* (sequences, not sets: TLC cannot build a set of values with payloads of different types)
IntVals == <<I(-7), I(-1), I(0), I(1), I(2), I(3)>>
Others == <<B(TRUE), B(FALSE), S("a"), IL(<<1, 2>>), SL(<<>>), NIL>>
SetToSeq(X) == LET RECURSIVE go(_, _)
                   go(Y, acc) == IF Y = {} THEN acc ELSE LET y == CHOOSE y \in Y : TRUE IN go(Y \ {y}, Append(acc, y))
               IN go(X, <<>>)
IntLists == SetToSeq(UNION {[1..n -> {1, 2, 3}] : n \in 0..3})
StrLists == SetToSeq(UNION {[1..n -> {"a", "b"}] : n \in 0..2})
ListVals == [i \in 1..Len(IntLists) |-> IL(IntLists[i])] \o [i \in 1..Len(StrLists) |-> SL(StrLists[i])]
            \o <<ISet(<<1, 3>>), SSet(<<"a">>)>>
Universe == CASE Fam = "C18" -> IntVals \o Others
              [] Fam = "C17" -> ListVals \o <<I(1), I(3), S("a"), S("c"), B(TRUE)>>
              [] OTHER -> <<>>
MaxArity == IF Fam = "C18" THEN 4 ELSE 2

VARIABLE ps
Init == ps = <<>>
Next == Len(ps) < MaxArity /\ \E k \in 1..Len(Universe) : ps' = Append(ps, Universe[k])
Spec == Init /\ [][Next]_ps

AllInts == \A i \in 1..Len(ps) : IsInt(ps[i])
AllBools == \A i \in 1..Len(ps) : IsBool(ps[i])
Res(op) == Apply(op, ps)
SameOutcome(a, b) == (IsErr(a) /\ IsErr(b) /\ a.v = b.v) \/ (~IsErr(a) /\ ~IsErr(b) /\ VEq(a, b))

\* ---------------------------------------------------------------- C18
OperatorsTotal == \A op \in BuiltinNames : Res(op).t \in {"b", "i", "e"}
AliasSame == \A op \in BuiltinNames : Canon(op) \in BuiltinNames => SameOutcome(Res(op), Res(Canon(op)))
NeIsNotEq == Len(ps) = 2 => (IsErr(Res("ne")) = IsErr(Res("eq")) /\ (Ok(Res("ne")) => Res("ne").v = ~Res("eq").v))
OrderLaws == (Len(ps) = 2 /\ AllInts) =>
               /\ Res("le").v = ~Res("gt").v /\ Res("ge").v = ~Res("lt").v
               /\ Res("gt").v = Apply("lt", <<ps[2], ps[1]>>).v
               /\ Res("eq").v = (Res("le").v /\ Res("ge").v)
BetweenLaw == (Len(ps) = 3 /\ AllInts) =>
                Res("between").v = (Apply("le", <<ps[2], ps[1]>>).v /\ Apply("le", <<ps[1], ps[3]>>).v)
FoldLaw == (Len(ps) >= 3 /\ AllInts) =>
             \A op \in {"add", "sub", "mul", "div", "mod"} :
                LET head == Apply(op, SubSeq(ps, 1, Len(ps) - 1)) IN
                IF IsErr(head) THEN IsErr(Res(op))
                ELSE SameOutcome(Res(op), Apply(op, <<head, ps[Len(ps)]>>))
LogicFold == (Len(ps) >= 3 /\ AllBools) =>
               \A op \in {"and", "or", "xor"} :
                  SameOutcome(Res(op), Apply(op, <<Apply(op, SubSeq(ps, 1, Len(ps) - 1)), ps[Len(ps)]>>))
ZeroDivisorAnywhere == (Len(ps) >= 2 /\ AllInts /\ \E i \in 2..Len(ps) : ps[i].v = 0) =>
                          (IsErr(Res("div")) /\ IsErr(Res("mod")))
WrongCountsAndTypes ==
  /\ Len(ps) < 2 => \A op \in {"add", "sub", "mul", "div", "mod", "and", "or", "xor", "eq", "ne", "gt", "lt", "ge", "le", "in", "overlap"} : IsErr(Res(op))
  /\ Len(ps) # 1 => IsErr(Res("not"))
  /\ Len(ps) # 3 => IsErr(Res("between"))
  /\ (Len(ps) >= 2 /\ ~AllInts) => \A op \in {"add", "sub", "mul", "div", "mod", "gt", "lt", "ge", "le"} : IsErr(Res(op))
  /\ (Len(ps) >= 2 /\ ~AllBools) => \A op \in {"and", "or", "xor"} : IsErr(Res(op))
\* Int64 (limbs) against TLC integers on the small window
Int64Agrees ==
  (Len(ps) = 2 /\ AllInts) =>
     LET a == ps[1].v  b == ps[2].v  A == FromInt(a)  Bv == FromInt(b) IN
     /\ Add64(A, Bv) = FromInt(a + b) /\ Sub64(A, Bv) = FromInt(a - b) /\ Mul64(A, Bv) = FromInt(a * b)
     /\ Lt64(A, Bv) = (a < b) /\ ToInt(A) = a /\ Neg64(A) = FromInt(-a)
     /\ (b # 0 => DivModOK(A, Bv, FromInt(TruncDiv(a, b)), FromInt(TruncMod(a, b))))
     /\ (b # 0 => ~DivModOK(A, Bv, FromInt(TruncDiv(a, b) + 1), FromInt(TruncMod(a, b))))
     /\ (b # 0 => ~DivModOK(A, Bv, FromInt(TruncDiv(a, b)), FromInt(TruncMod(a, b) + b)))
Int64Extremes ==
  ps = <<>> =>
     /\ Add64(MaxInt64, One64) = MinInt64 /\ Sub64(MinInt64, One64) = MaxInt64
     /\ Mul64(MinInt64, MinusOne64) = MinInt64 /\ Neg64(MinInt64) = MinInt64
     /\ Mul64(MaxInt64, MaxInt64) = One64 /\ Mul64(MaxInt64, FromInt(2)) = FromInt(-2)
     /\ Lt64(MinInt64, MaxInt64) /\ ~Lt64(MaxInt64, MinInt64) /\ Lt64(MinusOne64, Zero64)
     /\ DivModOK(MinInt64, MinusOne64, MinInt64, Zero64)
     /\ DivModOK(MinInt64, FromInt(2), <<192, 0, 0, 0, 0, 0, 0, 0>>, Zero64)
     /\ ~DivModOK(MinInt64, FromInt(4), <<96, 0, 0, 0, 0, 0, 0, 0>>, Zero64)      \* 3*2^61: equal only modulo 2^64
     /\ DivModOK(MinInt64, FromInt(4), <<224, 0, 0, 0, 0, 0, 0, 0>>, Zero64)
     /\ DivModOK(MaxInt64, MinusOne64, Neg64(MaxInt64), Zero64)
     /\ DivModOK(FromInt(-7), FromInt(2), FromInt(-3), FromInt(-1))

\* ---------------------------------------------------------------- C17
InAbs(v, q) == v \in Range(q)
ListLaws ==
  Len(ps) = 2 =>
    LET a == ps[1]  b == ps[2] IN
    \* overlap: both paths = set semantics, for every switch position; symmetric
    /\ ((a.t = "il" /\ b.t = "il") \/ (a.t = "sl" /\ b.t = "sl")) =>
          /\ \A h \in 0..8 : OverlapImpl(a.v, b.v, h) = OverlapAbs(a.v, b.v)
          /\ Res("overlap").v = OverlapAbs(a.v, b.v)
    /\ SameOutcome(Res("overlap"), Apply("overlap", <<b, a>>))
    \* the empty literal (an empty string list) is an empty list of either type, on either side
    /\ ((a.t = "sl" /\ a.v = <<>> /\ b.t \in {"il", "sl"}) => VEq(Res("overlap"), B(FALSE)))
    /\ ((b.t = "sl" /\ b.v = <<>> /\ a.t \in {"il", "sl"}) => VEq(Res("overlap"), B(FALSE)))
    /\ ((b.t = "sl" /\ b.v = <<>> /\ a.t \in {"i", "s"}) => VEq(Res("in"), B(FALSE)))
    \* in: membership, for lists and pre-built sets
    /\ ((a.t = "i" /\ b.t \in {"il", "is"}) \/ (a.t = "s" /\ b.t \in {"sl", "ss"})) => Res("in").v = InAbs(a.v, b.v)
    \* element-type mismatch is an error, never false
    /\ ((a.t = "i" /\ b.t \in {"sl", "ss"} /\ b.v # <<>>) \/ (a.t = "s" /\ b.t \in {"il", "is"})) => IsErr(Res("in"))
    /\ ((a.t = "il" /\ b.t = "sl" /\ b.v # <<>> /\ a.v # <<>>) \/ (a.t = "sl" /\ b.t = "il" /\ a.v # <<>> /\ b.v # <<>>)) => IsErr(Res("overlap"))
    /\ (a.t \in {"b", "i", "s"} => IsErr(Res("overlap")))

\* ---------------------------------------------------------------- C19 (Fam = "C19": states are pairs of versions)
=============================================================================
