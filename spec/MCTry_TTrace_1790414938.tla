---- MODULE MCTry_TTrace_1790414938 ----
EXTENDS Sequences, TLCExt, Toolbox, MCTry, Naturals, TLC

_expression ==
    LET MCTry_TEExpression == INSTANCE MCTry_TEExpression
    IN MCTry_TEExpression!expression
----

_trace ==
    LET MCTry_TETrace == INSTANCE MCTry_TETrace
    IN MCTry_TETrace!trace
----

_inv ==
    ~(
        TLCGet("level") = Len(_TETrace)
        /\
        s = ([st |-> "done", top |-> 1, hw |-> 1, pc |-> 6, res |-> [t |-> "e", v |-> "div0"], os |-> <<[t |-> "b", v |-> FALSE], [t |-> "nil", v |-> "nil"], [t |-> "nil", v |-> "nil"], [t |-> "nil", v |-> "nil"], [t |-> "nil", v |-> "nil"], [t |-> "nil", v |-> "nil"], [t |-> "nil", v |-> "nil"], [t |-> "nil", v |-> "nil"]>>, eff |-> <<[k |-> "get", n |-> "x"], [k |-> "get", n |-> "n"]>>, out |-> <<>>, buf |-> <<[t |-> "i", v |-> 2], [t |-> "i", v |-> 0]>>, hc |-> 0])
        /\
        T = ([k |-> "o", kids |-> <<[k |-> "if", kids |-> <<[k |-> "v", kids |-> <<>>, v |-> "x"], [k |-> "c", kids |-> <<>>, v |-> [t |-> "b", v |-> FALSE]], [k |-> "c", kids |-> <<>>, v |-> [t |-> "b", v |-> FALSE]]>>, v |-> "if"], [k |-> "o", kids |-> <<[k |-> "f", kids |-> <<[k |-> "c", kids |-> <<>>, v |-> [t |-> "i", v |-> 2]], [k |-> "v", kids |-> <<>>, v |-> "n"]>>, v |-> "/"], [k |-> "c", kids |-> <<>>, v |-> [t |-> "i", v |-> 0]]>>, v |-> ">"]>>, v |-> "and"])
        /\
        av = ({"x", "n"})
        /\
        tree = ([k |-> "o", kids |-> <<[k |-> "if", kids |-> <<[k |-> "v", kids |-> <<>>, v |-> "x"], [k |-> "c", kids |-> <<>>, v |-> [t |-> "b", v |-> FALSE]], [k |-> "c", kids |-> <<>>, v |-> [t |-> "b", v |-> FALSE]]>>, v |-> "if"], [k |-> "o", kids |-> <<[k |-> "o", kids |-> <<[k |-> "c", kids |-> <<>>, v |-> [t |-> "i", v |-> 2]], [k |-> "v", kids |-> <<>>, v |-> "n"]>>, v |-> "/"], [k |-> "c", kids |-> <<>>, v |-> [t |-> "i", v |-> 0]]>>, v |-> ">"]>>, v |-> "and"])
        /\
        L = ([max |-> 3, nodes |-> <<[top |-> 1, cc |-> 0, val |-> "x", ty |-> "v", scf |-> FALSE, sct |-> FALSE, sc |-> 1, pand |-> FALSE, por |-> FALSE, par |-> 2], [top |-> 0, cc |-> 4, val |-> "if", ty |-> "if", scf |-> TRUE, sct |-> FALSE, sc |-> 4, pand |-> TRUE, por |-> FALSE, par |-> 11], [top |-> 1, cc |-> 0, val |-> [t |-> "b", v |-> FALSE], ty |-> "c", scf |-> TRUE, sct |-> FALSE, sc |-> 0, pand |-> FALSE, por |-> FALSE, par |-> 2], [top |-> 1, cc |-> 0, val |-> "fi", ty |-> "fi", scf |-> TRUE, sct |-> FALSE, sc |-> 5, pand |-> FALSE, por |-> FALSE, par |-> 2], [top |-> 1, cc |-> 0, val |-> [t |-> "b", v |-> FALSE], ty |-> "c", scf |-> TRUE, sct |-> FALSE, sc |-> 0, pand |-> FALSE, por |-> FALSE, par |-> 2], [top |-> 2, cc |-> 2, val |-> "/", ty |-> "f", scf |-> FALSE, sct |-> FALSE, sc |-> 6, pand |-> FALSE, por |-> FALSE, par |-> 10], [top |-> 2, cc |-> 0, val |-> [t |-> "i", v |-> 2], ty |-> "c", scf |-> FALSE, sct |-> FALSE, sc |-> 7, pand |-> FALSE, por |-> FALSE, par |-> 6], [top |-> 2, cc |-> 0, val |-> "n", ty |-> "v", scf |-> FALSE, sct |-> FALSE, sc |-> 8, pand |-> FALSE, por |-> FALSE, par |-> 6], [top |-> 3, cc |-> 0, val |-> [t |-> "i", v |-> 0], ty |-> "c", scf |-> FALSE, sct |-> FALSE, sc |-> 9, pand |-> FALSE, por |-> FALSE, par |-> 10], [top |-> 2, cc |-> 2, val |-> ">", ty |-> "o", scf |-> TRUE, sct |-> TRUE, sc |-> 0, pand |-> TRUE, por |-> FALSE, par |-> 11], [top |-> 1, cc |-> 2, val |-> "and", ty |-> "o", scf |-> FALSE, sct |-> FALSE, sc |-> 0, pand |-> FALSE, por |-> FALSE, par |-> 0]>>])
        /\
        env = ([x |-> [t |-> "b", v |-> FALSE], y |-> [t |-> "b", v |-> FALSE], n |-> [t |-> "i", v |-> 0], n0 |-> [t |-> "b", v |-> FALSE]])
        /\
        mask = ([cf |-> FALSE, rn |-> FALSE, fe |-> TRUE, ro |-> FALSE])
    )
----

_init ==
    /\ av = _TETrace[1].av
    /\ L = _TETrace[1].L
    /\ T = _TETrace[1].T
    /\ env = _TETrace[1].env
    /\ s = _TETrace[1].s
    /\ tree = _TETrace[1].tree
    /\ mask = _TETrace[1].mask
----

_next ==
    /\ \E i,j \in DOMAIN _TETrace:
        /\ \/ /\ j = i + 1
              /\ i = TLCGet("level")
        /\ av  = _TETrace[i].av
        /\ av' = _TETrace[j].av
        /\ L  = _TETrace[i].L
        /\ L' = _TETrace[j].L
        /\ T  = _TETrace[i].T
        /\ T' = _TETrace[j].T
        /\ env  = _TETrace[i].env
        /\ env' = _TETrace[j].env
        /\ s  = _TETrace[i].s
        /\ s' = _TETrace[j].s
        /\ tree  = _TETrace[i].tree
        /\ tree' = _TETrace[j].tree
        /\ mask  = _TETrace[i].mask
        /\ mask' = _TETrace[j].mask

\* Uncomment the ASSUME below to write the states of the error trace
\* to the given file in Json format. Note that you can pass any tuple
\* to `JsonSerialize`. For example, a sub-sequence of _TETrace.
    \* ASSUME
    \*     LET J == INSTANCE Json
    \*         IN J!JsonSerialize("MCTry_TTrace_1790414938.json", _TETrace)

=============================================================================

 Note that you can extract this module `MCTry_TEExpression`
  to a dedicated file to reuse `expression` (the module in the 
  dedicated `MCTry_TEExpression.tla` file takes precedence 
  over the module `MCTry_TEExpression` below).

---- MODULE MCTry_TEExpression ----
EXTENDS Sequences, TLCExt, Toolbox, MCTry, Naturals, TLC

expression == 
    [
        \* To hide variables of the `MCTry` spec from the error trace,
        \* remove the variables below.  The trace will be written in the order
        \* of the fields of this record.
        av |-> av
        ,L |-> L
        ,T |-> T
        ,env |-> env
        ,s |-> s
        ,tree |-> tree
        ,mask |-> mask
        
        \* Put additional constant-, state-, and action-level expressions here:
        \* ,_stateNumber |-> _TEPosition
        \* ,_avUnchanged |-> av = av'
        
        \* Format the `av` variable as Json value.
        \* ,_avJson |->
        \*     LET J == INSTANCE Json
        \*     IN J!ToJson(av)
        
        \* Lastly, you may build expressions over arbitrary sets of states by
        \* leveraging the _TETrace operator.  For example, this is how to
        \* count the number of times a spec variable changed up to the current
        \* state in the trace.
        \* ,_avModCount |->
        \*     LET F[s \in DOMAIN _TETrace] ==
        \*         IF s = 1 THEN 0
        \*         ELSE IF _TETrace[s].av # _TETrace[s-1].av
        \*             THEN 1 + F[s-1] ELSE F[s-1]
        \*     IN F[_TEPosition - 1]
    ]

=============================================================================



Parsing and semantic processing can take forever if the trace below is long.
 In this case, it is advised to uncomment the module below to deserialize the
 trace from a generated binary file.

\*
\*---- MODULE MCTry_TETrace ----
\*EXTENDS IOUtils, MCTry, TLC
\*
\*trace == IODeserialize("MCTry_TTrace_1790414938.bin", TRUE)
\*
\*=============================================================================
\*

---- MODULE MCTry_TETrace ----
EXTENDS MCTry, TLC

trace == 
    <<
    ([s |-> [st |-> "cfg"],T |-> [k |-> "o", kids |-> <<[k |-> "if", kids |-> <<[k |-> "v", kids |-> <<>>, v |-> "x"], [k |-> "c", kids |-> <<>>, v |-> [t |-> "b", v |-> FALSE]], [k |-> "c", kids |-> <<>>, v |-> [t |-> "b", v |-> FALSE]]>>, v |-> "if"], [k |-> "o", kids |-> <<[k |-> "o", kids |-> <<[k |-> "c", kids |-> <<>>, v |-> [t |-> "i", v |-> 2]], [k |-> "v", kids |-> <<>>, v |-> "n"]>>, v |-> "/"], [k |-> "c", kids |-> <<>>, v |-> [t |-> "i", v |-> 0]]>>, v |-> ">"]>>, v |-> "and"],av |-> {},tree |-> [k |-> "o", kids |-> <<[k |-> "if", kids |-> <<[k |-> "v", kids |-> <<>>, v |-> "x"], [k |-> "c", kids |-> <<>>, v |-> [t |-> "b", v |-> FALSE]], [k |-> "c", kids |-> <<>>, v |-> [t |-> "b", v |-> FALSE]]>>, v |-> "if"], [k |-> "o", kids |-> <<[k |-> "o", kids |-> <<[k |-> "c", kids |-> <<>>, v |-> [t |-> "i", v |-> 2]], [k |-> "v", kids |-> <<>>, v |-> "n"]>>, v |-> "/"], [k |-> "c", kids |-> <<>>, v |-> [t |-> "i", v |-> 0]]>>, v |-> ">"]>>, v |-> "and"],L |-> <<>>,env |-> [x |-> [t |-> "b", v |-> TRUE], y |-> [t |-> "b", v |-> TRUE], n |-> [t |-> "i", v |-> 0], n0 |-> [t |-> "b", v |-> FALSE]],mask |-> [cf |-> FALSE, rn |-> FALSE, fe |-> FALSE, ro |-> FALSE]]),
    ([s |-> [st |-> "run", top |-> 0, hw |-> 0, pc |-> 1, res |-> [t |-> "nil", v |-> "nil"], os |-> <<[t |-> "nil", v |-> "nil"], [t |-> "nil", v |-> "nil"], [t |-> "nil", v |-> "nil"], [t |-> "nil", v |-> "nil"], [t |-> "nil", v |-> "nil"], [t |-> "nil", v |-> "nil"], [t |-> "nil", v |-> "nil"], [t |-> "nil", v |-> "nil"]>>, eff |-> <<>>, out |-> <<>>, buf |-> <<[t |-> "nil", v |-> "nil"], [t |-> "nil", v |-> "nil"]>>, hc |-> 0],T |-> [k |-> "o", kids |-> <<[k |-> "if", kids |-> <<[k |-> "v", kids |-> <<>>, v |-> "x"], [k |-> "c", kids |-> <<>>, v |-> [t |-> "b", v |-> FALSE]], [k |-> "c", kids |-> <<>>, v |-> [t |-> "b", v |-> FALSE]]>>, v |-> "if"], [k |-> "o", kids |-> <<[k |-> "f", kids |-> <<[k |-> "c", kids |-> <<>>, v |-> [t |-> "i", v |-> 2]], [k |-> "v", kids |-> <<>>, v |-> "n"]>>, v |-> "/"], [k |-> "c", kids |-> <<>>, v |-> [t |-> "i", v |-> 0]]>>, v |-> ">"]>>, v |-> "and"],av |-> {"x", "n"},tree |-> [k |-> "o", kids |-> <<[k |-> "if", kids |-> <<[k |-> "v", kids |-> <<>>, v |-> "x"], [k |-> "c", kids |-> <<>>, v |-> [t |-> "b", v |-> FALSE]], [k |-> "c", kids |-> <<>>, v |-> [t |-> "b", v |-> FALSE]]>>, v |-> "if"], [k |-> "o", kids |-> <<[k |-> "o", kids |-> <<[k |-> "c", kids |-> <<>>, v |-> [t |-> "i", v |-> 2]], [k |-> "v", kids |-> <<>>, v |-> "n"]>>, v |-> "/"], [k |-> "c", kids |-> <<>>, v |-> [t |-> "i", v |-> 0]]>>, v |-> ">"]>>, v |-> "and"],L |-> [max |-> 3, nodes |-> <<[top |-> 1, cc |-> 0, val |-> "x", ty |-> "v", scf |-> FALSE, sct |-> FALSE, sc |-> 1, pand |-> FALSE, por |-> FALSE, par |-> 2], [top |-> 0, cc |-> 4, val |-> "if", ty |-> "if", scf |-> TRUE, sct |-> FALSE, sc |-> 4, pand |-> TRUE, por |-> FALSE, par |-> 11], [top |-> 1, cc |-> 0, val |-> [t |-> "b", v |-> FALSE], ty |-> "c", scf |-> TRUE, sct |-> FALSE, sc |-> 0, pand |-> FALSE, por |-> FALSE, par |-> 2], [top |-> 1, cc |-> 0, val |-> "fi", ty |-> "fi", scf |-> TRUE, sct |-> FALSE, sc |-> 5, pand |-> FALSE, por |-> FALSE, par |-> 2], [top |-> 1, cc |-> 0, val |-> [t |-> "b", v |-> FALSE], ty |-> "c", scf |-> TRUE, sct |-> FALSE, sc |-> 0, pand |-> FALSE, por |-> FALSE, par |-> 2], [top |-> 2, cc |-> 2, val |-> "/", ty |-> "f", scf |-> FALSE, sct |-> FALSE, sc |-> 6, pand |-> FALSE, por |-> FALSE, par |-> 10], [top |-> 2, cc |-> 0, val |-> [t |-> "i", v |-> 2], ty |-> "c", scf |-> FALSE, sct |-> FALSE, sc |-> 7, pand |-> FALSE, por |-> FALSE, par |-> 6], [top |-> 2, cc |-> 0, val |-> "n", ty |-> "v", scf |-> FALSE, sct |-> FALSE, sc |-> 8, pand |-> FALSE, por |-> FALSE, par |-> 6], [top |-> 3, cc |-> 0, val |-> [t |-> "i", v |-> 0], ty |-> "c", scf |-> FALSE, sct |-> FALSE, sc |-> 9, pand |-> FALSE, por |-> FALSE, par |-> 10], [top |-> 2, cc |-> 2, val |-> ">", ty |-> "o", scf |-> TRUE, sct |-> TRUE, sc |-> 0, pand |-> TRUE, por |-> FALSE, par |-> 11], [top |-> 1, cc |-> 2, val |-> "and", ty |-> "o", scf |-> FALSE, sct |-> FALSE, sc |-> 0, pand |-> FALSE, por |-> FALSE, par |-> 0]>>],env |-> [x |-> [t |-> "b", v |-> FALSE], y |-> [t |-> "b", v |-> FALSE], n |-> [t |-> "i", v |-> 0], n0 |-> [t |-> "b", v |-> FALSE]],mask |-> [cf |-> FALSE, rn |-> FALSE, fe |-> TRUE, ro |-> FALSE]]),
    ([s |-> [st |-> "run", top |-> 1, hw |-> 1, pc |-> 2, res |-> [t |-> "b", v |-> FALSE], os |-> <<[t |-> "b", v |-> FALSE], [t |-> "nil", v |-> "nil"], [t |-> "nil", v |-> "nil"], [t |-> "nil", v |-> "nil"], [t |-> "nil", v |-> "nil"], [t |-> "nil", v |-> "nil"], [t |-> "nil", v |-> "nil"], [t |-> "nil", v |-> "nil"]>>, eff |-> <<[k |-> "get", n |-> "x"]>>, out |-> <<>>, buf |-> <<[t |-> "nil", v |-> "nil"], [t |-> "nil", v |-> "nil"]>>, hc |-> 0],T |-> [k |-> "o", kids |-> <<[k |-> "if", kids |-> <<[k |-> "v", kids |-> <<>>, v |-> "x"], [k |-> "c", kids |-> <<>>, v |-> [t |-> "b", v |-> FALSE]], [k |-> "c", kids |-> <<>>, v |-> [t |-> "b", v |-> FALSE]]>>, v |-> "if"], [k |-> "o", kids |-> <<[k |-> "f", kids |-> <<[k |-> "c", kids |-> <<>>, v |-> [t |-> "i", v |-> 2]], [k |-> "v", kids |-> <<>>, v |-> "n"]>>, v |-> "/"], [k |-> "c", kids |-> <<>>, v |-> [t |-> "i", v |-> 0]]>>, v |-> ">"]>>, v |-> "and"],av |-> {"x", "n"},tree |-> [k |-> "o", kids |-> <<[k |-> "if", kids |-> <<[k |-> "v", kids |-> <<>>, v |-> "x"], [k |-> "c", kids |-> <<>>, v |-> [t |-> "b", v |-> FALSE]], [k |-> "c", kids |-> <<>>, v |-> [t |-> "b", v |-> FALSE]]>>, v |-> "if"], [k |-> "o", kids |-> <<[k |-> "o", kids |-> <<[k |-> "c", kids |-> <<>>, v |-> [t |-> "i", v |-> 2]], [k |-> "v", kids |-> <<>>, v |-> "n"]>>, v |-> "/"], [k |-> "c", kids |-> <<>>, v |-> [t |-> "i", v |-> 0]]>>, v |-> ">"]>>, v |-> "and"],L |-> [max |-> 3, nodes |-> <<[top |-> 1, cc |-> 0, val |-> "x", ty |-> "v", scf |-> FALSE, sct |-> FALSE, sc |-> 1, pand |-> FALSE, por |-> FALSE, par |-> 2], [top |-> 0, cc |-> 4, val |-> "if", ty |-> "if", scf |-> TRUE, sct |-> FALSE, sc |-> 4, pand |-> TRUE, por |-> FALSE, par |-> 11], [top |-> 1, cc |-> 0, val |-> [t |-> "b", v |-> FALSE], ty |-> "c", scf |-> TRUE, sct |-> FALSE, sc |-> 0, pand |-> FALSE, por |-> FALSE, par |-> 2], [top |-> 1, cc |-> 0, val |-> "fi", ty |-> "fi", scf |-> TRUE, sct |-> FALSE, sc |-> 5, pand |-> FALSE, por |-> FALSE, par |-> 2], [top |-> 1, cc |-> 0, val |-> [t |-> "b", v |-> FALSE], ty |-> "c", scf |-> TRUE, sct |-> FALSE, sc |-> 0, pand |-> FALSE, por |-> FALSE, par |-> 2], [top |-> 2, cc |-> 2, val |-> "/", ty |-> "f", scf |-> FALSE, sct |-> FALSE, sc |-> 6, pand |-> FALSE, por |-> FALSE, par |-> 10], [top |-> 2, cc |-> 0, val |-> [t |-> "i", v |-> 2], ty |-> "c", scf |-> FALSE, sct |-> FALSE, sc |-> 7, pand |-> FALSE, por |-> FALSE, par |-> 6], [top |-> 2, cc |-> 0, val |-> "n", ty |-> "v", scf |-> FALSE, sct |-> FALSE, sc |-> 8, pand |-> FALSE, por |-> FALSE, par |-> 6], [top |-> 3, cc |-> 0, val |-> [t |-> "i", v |-> 0], ty |-> "c", scf |-> FALSE, sct |-> FALSE, sc |-> 9, pand |-> FALSE, por |-> FALSE, par |-> 10], [top |-> 2, cc |-> 2, val |-> ">", ty |-> "o", scf |-> TRUE, sct |-> TRUE, sc |-> 0, pand |-> TRUE, por |-> FALSE, par |-> 11], [top |-> 1, cc |-> 2, val |-> "and", ty |-> "o", scf |-> FALSE, sct |-> FALSE, sc |-> 0, pand |-> FALSE, por |-> FALSE, par |-> 0]>>],env |-> [x |-> [t |-> "b", v |-> FALSE], y |-> [t |-> "b", v |-> FALSE], n |-> [t |-> "i", v |-> 0], n0 |-> [t |-> "b", v |-> FALSE]],mask |-> [cf |-> FALSE, rn |-> FALSE, fe |-> TRUE, ro |-> FALSE]]),
    ([s |-> [st |-> "run", top |-> 0, hw |-> 1, pc |-> 5, res |-> [t |-> "b", v |-> FALSE], os |-> <<[t |-> "b", v |-> FALSE], [t |-> "nil", v |-> "nil"], [t |-> "nil", v |-> "nil"], [t |-> "nil", v |-> "nil"], [t |-> "nil", v |-> "nil"], [t |-> "nil", v |-> "nil"], [t |-> "nil", v |-> "nil"], [t |-> "nil", v |-> "nil"]>>, eff |-> <<[k |-> "get", n |-> "x"]>>, out |-> <<>>, buf |-> <<[t |-> "nil", v |-> "nil"], [t |-> "nil", v |-> "nil"]>>, hc |-> 0],T |-> [k |-> "o", kids |-> <<[k |-> "if", kids |-> <<[k |-> "v", kids |-> <<>>, v |-> "x"], [k |-> "c", kids |-> <<>>, v |-> [t |-> "b", v |-> FALSE]], [k |-> "c", kids |-> <<>>, v |-> [t |-> "b", v |-> FALSE]]>>, v |-> "if"], [k |-> "o", kids |-> <<[k |-> "f", kids |-> <<[k |-> "c", kids |-> <<>>, v |-> [t |-> "i", v |-> 2]], [k |-> "v", kids |-> <<>>, v |-> "n"]>>, v |-> "/"], [k |-> "c", kids |-> <<>>, v |-> [t |-> "i", v |-> 0]]>>, v |-> ">"]>>, v |-> "and"],av |-> {"x", "n"},tree |-> [k |-> "o", kids |-> <<[k |-> "if", kids |-> <<[k |-> "v", kids |-> <<>>, v |-> "x"], [k |-> "c", kids |-> <<>>, v |-> [t |-> "b", v |-> FALSE]], [k |-> "c", kids |-> <<>>, v |-> [t |-> "b", v |-> FALSE]]>>, v |-> "if"], [k |-> "o", kids |-> <<[k |-> "o", kids |-> <<[k |-> "c", kids |-> <<>>, v |-> [t |-> "i", v |-> 2]], [k |-> "v", kids |-> <<>>, v |-> "n"]>>, v |-> "/"], [k |-> "c", kids |-> <<>>, v |-> [t |-> "i", v |-> 0]]>>, v |-> ">"]>>, v |-> "and"],L |-> [max |-> 3, nodes |-> <<[top |-> 1, cc |-> 0, val |-> "x", ty |-> "v", scf |-> FALSE, sct |-> FALSE, sc |-> 1, pand |-> FALSE, por |-> FALSE, par |-> 2], [top |-> 0, cc |-> 4, val |-> "if", ty |-> "if", scf |-> TRUE, sct |-> FALSE, sc |-> 4, pand |-> TRUE, por |-> FALSE, par |-> 11], [top |-> 1, cc |-> 0, val |-> [t |-> "b", v |-> FALSE], ty |-> "c", scf |-> TRUE, sct |-> FALSE, sc |-> 0, pand |-> FALSE, por |-> FALSE, par |-> 2], [top |-> 1, cc |-> 0, val |-> "fi", ty |-> "fi", scf |-> TRUE, sct |-> FALSE, sc |-> 5, pand |-> FALSE, por |-> FALSE, par |-> 2], [top |-> 1, cc |-> 0, val |-> [t |-> "b", v |-> FALSE], ty |-> "c", scf |-> TRUE, sct |-> FALSE, sc |-> 0, pand |-> FALSE, por |-> FALSE, par |-> 2], [top |-> 2, cc |-> 2, val |-> "/", ty |-> "f", scf |-> FALSE, sct |-> FALSE, sc |-> 6, pand |-> FALSE, por |-> FALSE, par |-> 10], [top |-> 2, cc |-> 0, val |-> [t |-> "i", v |-> 2], ty |-> "c", scf |-> FALSE, sct |-> FALSE, sc |-> 7, pand |-> FALSE, por |-> FALSE, par |-> 6], [top |-> 2, cc |-> 0, val |-> "n", ty |-> "v", scf |-> FALSE, sct |-> FALSE, sc |-> 8, pand |-> FALSE, por |-> FALSE, par |-> 6], [top |-> 3, cc |-> 0, val |-> [t |-> "i", v |-> 0], ty |-> "c", scf |-> FALSE, sct |-> FALSE, sc |-> 9, pand |-> FALSE, por |-> FALSE, par |-> 10], [top |-> 2, cc |-> 2, val |-> ">", ty |-> "o", scf |-> TRUE, sct |-> TRUE, sc |-> 0, pand |-> TRUE, por |-> FALSE, par |-> 11], [top |-> 1, cc |-> 2, val |-> "and", ty |-> "o", scf |-> FALSE, sct |-> FALSE, sc |-> 0, pand |-> FALSE, por |-> FALSE, par |-> 0]>>],env |-> [x |-> [t |-> "b", v |-> FALSE], y |-> [t |-> "b", v |-> FALSE], n |-> [t |-> "i", v |-> 0], n0 |-> [t |-> "b", v |-> FALSE]],mask |-> [cf |-> FALSE, rn |-> FALSE, fe |-> TRUE, ro |-> FALSE]]),
    ([s |-> [st |-> "run", top |-> 1, hw |-> 1, pc |-> 6, res |-> [t |-> "b", v |-> FALSE], os |-> <<[t |-> "b", v |-> FALSE], [t |-> "nil", v |-> "nil"], [t |-> "nil", v |-> "nil"], [t |-> "nil", v |-> "nil"], [t |-> "nil", v |-> "nil"], [t |-> "nil", v |-> "nil"], [t |-> "nil", v |-> "nil"], [t |-> "nil", v |-> "nil"]>>, eff |-> <<[k |-> "get", n |-> "x"]>>, out |-> <<>>, buf |-> <<[t |-> "nil", v |-> "nil"], [t |-> "nil", v |-> "nil"]>>, hc |-> 0],T |-> [k |-> "o", kids |-> <<[k |-> "if", kids |-> <<[k |-> "v", kids |-> <<>>, v |-> "x"], [k |-> "c", kids |-> <<>>, v |-> [t |-> "b", v |-> FALSE]], [k |-> "c", kids |-> <<>>, v |-> [t |-> "b", v |-> FALSE]]>>, v |-> "if"], [k |-> "o", kids |-> <<[k |-> "f", kids |-> <<[k |-> "c", kids |-> <<>>, v |-> [t |-> "i", v |-> 2]], [k |-> "v", kids |-> <<>>, v |-> "n"]>>, v |-> "/"], [k |-> "c", kids |-> <<>>, v |-> [t |-> "i", v |-> 0]]>>, v |-> ">"]>>, v |-> "and"],av |-> {"x", "n"},tree |-> [k |-> "o", kids |-> <<[k |-> "if", kids |-> <<[k |-> "v", kids |-> <<>>, v |-> "x"], [k |-> "c", kids |-> <<>>, v |-> [t |-> "b", v |-> FALSE]], [k |-> "c", kids |-> <<>>, v |-> [t |-> "b", v |-> FALSE]]>>, v |-> "if"], [k |-> "o", kids |-> <<[k |-> "o", kids |-> <<[k |-> "c", kids |-> <<>>, v |-> [t |-> "i", v |-> 2]], [k |-> "v", kids |-> <<>>, v |-> "n"]>>, v |-> "/"], [k |-> "c", kids |-> <<>>, v |-> [t |-> "i", v |-> 0]]>>, v |-> ">"]>>, v |-> "and"],L |-> [max |-> 3, nodes |-> <<[top |-> 1, cc |-> 0, val |-> "x", ty |-> "v", scf |-> FALSE, sct |-> FALSE, sc |-> 1, pand |-> FALSE, por |-> FALSE, par |-> 2], [top |-> 0, cc |-> 4, val |-> "if", ty |-> "if", scf |-> TRUE, sct |-> FALSE, sc |-> 4, pand |-> TRUE, por |-> FALSE, par |-> 11], [top |-> 1, cc |-> 0, val |-> [t |-> "b", v |-> FALSE], ty |-> "c", scf |-> TRUE, sct |-> FALSE, sc |-> 0, pand |-> FALSE, por |-> FALSE, par |-> 2], [top |-> 1, cc |-> 0, val |-> "fi", ty |-> "fi", scf |-> TRUE, sct |-> FALSE, sc |-> 5, pand |-> FALSE, por |-> FALSE, par |-> 2], [top |-> 1, cc |-> 0, val |-> [t |-> "b", v |-> FALSE], ty |-> "c", scf |-> TRUE, sct |-> FALSE, sc |-> 0, pand |-> FALSE, por |-> FALSE, par |-> 2], [top |-> 2, cc |-> 2, val |-> "/", ty |-> "f", scf |-> FALSE, sct |-> FALSE, sc |-> 6, pand |-> FALSE, por |-> FALSE, par |-> 10], [top |-> 2, cc |-> 0, val |-> [t |-> "i", v |-> 2], ty |-> "c", scf |-> FALSE, sct |-> FALSE, sc |-> 7, pand |-> FALSE, por |-> FALSE, par |-> 6], [top |-> 2, cc |-> 0, val |-> "n", ty |-> "v", scf |-> FALSE, sct |-> FALSE, sc |-> 8, pand |-> FALSE, por |-> FALSE, par |-> 6], [top |-> 3, cc |-> 0, val |-> [t |-> "i", v |-> 0], ty |-> "c", scf |-> FALSE, sct |-> FALSE, sc |-> 9, pand |-> FALSE, por |-> FALSE, par |-> 10], [top |-> 2, cc |-> 2, val |-> ">", ty |-> "o", scf |-> TRUE, sct |-> TRUE, sc |-> 0, pand |-> TRUE, por |-> FALSE, par |-> 11], [top |-> 1, cc |-> 2, val |-> "and", ty |-> "o", scf |-> FALSE, sct |-> FALSE, sc |-> 0, pand |-> FALSE, por |-> FALSE, par |-> 0]>>],env |-> [x |-> [t |-> "b", v |-> FALSE], y |-> [t |-> "b", v |-> FALSE], n |-> [t |-> "i", v |-> 0], n0 |-> [t |-> "b", v |-> FALSE]],mask |-> [cf |-> FALSE, rn |-> FALSE, fe |-> TRUE, ro |-> FALSE]]),
    ([s |-> [st |-> "done", top |-> 1, hw |-> 1, pc |-> 6, res |-> [t |-> "e", v |-> "div0"], os |-> <<[t |-> "b", v |-> FALSE], [t |-> "nil", v |-> "nil"], [t |-> "nil", v |-> "nil"], [t |-> "nil", v |-> "nil"], [t |-> "nil", v |-> "nil"], [t |-> "nil", v |-> "nil"], [t |-> "nil", v |-> "nil"], [t |-> "nil", v |-> "nil"]>>, eff |-> <<[k |-> "get", n |-> "x"], [k |-> "get", n |-> "n"]>>, out |-> <<>>, buf |-> <<[t |-> "i", v |-> 2], [t |-> "i", v |-> 0]>>, hc |-> 0],T |-> [k |-> "o", kids |-> <<[k |-> "if", kids |-> <<[k |-> "v", kids |-> <<>>, v |-> "x"], [k |-> "c", kids |-> <<>>, v |-> [t |-> "b", v |-> FALSE]], [k |-> "c", kids |-> <<>>, v |-> [t |-> "b", v |-> FALSE]]>>, v |-> "if"], [k |-> "o", kids |-> <<[k |-> "f", kids |-> <<[k |-> "c", kids |-> <<>>, v |-> [t |-> "i", v |-> 2]], [k |-> "v", kids |-> <<>>, v |-> "n"]>>, v |-> "/"], [k |-> "c", kids |-> <<>>, v |-> [t |-> "i", v |-> 0]]>>, v |-> ">"]>>, v |-> "and"],av |-> {"x", "n"},tree |-> [k |-> "o", kids |-> <<[k |-> "if", kids |-> <<[k |-> "v", kids |-> <<>>, v |-> "x"], [k |-> "c", kids |-> <<>>, v |-> [t |-> "b", v |-> FALSE]], [k |-> "c", kids |-> <<>>, v |-> [t |-> "b", v |-> FALSE]]>>, v |-> "if"], [k |-> "o", kids |-> <<[k |-> "o", kids |-> <<[k |-> "c", kids |-> <<>>, v |-> [t |-> "i", v |-> 2]], [k |-> "v", kids |-> <<>>, v |-> "n"]>>, v |-> "/"], [k |-> "c", kids |-> <<>>, v |-> [t |-> "i", v |-> 0]]>>, v |-> ">"]>>, v |-> "and"],L |-> [max |-> 3, nodes |-> <<[top |-> 1, cc |-> 0, val |-> "x", ty |-> "v", scf |-> FALSE, sct |-> FALSE, sc |-> 1, pand |-> FALSE, por |-> FALSE, par |-> 2], [top |-> 0, cc |-> 4, val |-> "if", ty |-> "if", scf |-> TRUE, sct |-> FALSE, sc |-> 4, pand |-> TRUE, por |-> FALSE, par |-> 11], [top |-> 1, cc |-> 0, val |-> [t |-> "b", v |-> FALSE], ty |-> "c", scf |-> TRUE, sct |-> FALSE, sc |-> 0, pand |-> FALSE, por |-> FALSE, par |-> 2], [top |-> 1, cc |-> 0, val |-> "fi", ty |-> "fi", scf |-> TRUE, sct |-> FALSE, sc |-> 5, pand |-> FALSE, por |-> FALSE, par |-> 2], [top |-> 1, cc |-> 0, val |-> [t |-> "b", v |-> FALSE], ty |-> "c", scf |-> TRUE, sct |-> FALSE, sc |-> 0, pand |-> FALSE, por |-> FALSE, par |-> 2], [top |-> 2, cc |-> 2, val |-> "/", ty |-> "f", scf |-> FALSE, sct |-> FALSE, sc |-> 6, pand |-> FALSE, por |-> FALSE, par |-> 10], [top |-> 2, cc |-> 0, val |-> [t |-> "i", v |-> 2], ty |-> "c", scf |-> FALSE, sct |-> FALSE, sc |-> 7, pand |-> FALSE, por |-> FALSE, par |-> 6], [top |-> 2, cc |-> 0, val |-> "n", ty |-> "v", scf |-> FALSE, sct |-> FALSE, sc |-> 8, pand |-> FALSE, por |-> FALSE, par |-> 6], [top |-> 3, cc |-> 0, val |-> [t |-> "i", v |-> 0], ty |-> "c", scf |-> FALSE, sct |-> FALSE, sc |-> 9, pand |-> FALSE, por |-> FALSE, par |-> 10], [top |-> 2, cc |-> 2, val |-> ">", ty |-> "o", scf |-> TRUE, sct |-> TRUE, sc |-> 0, pand |-> TRUE, por |-> FALSE, par |-> 11], [top |-> 1, cc |-> 2, val |-> "and", ty |-> "o", scf |-> FALSE, sct |-> FALSE, sc |-> 0, pand |-> FALSE, por |-> FALSE, par |-> 0]>>],env |-> [x |-> [t |-> "b", v |-> FALSE], y |-> [t |-> "b", v |-> FALSE], n |-> [t |-> "i", v |-> 0], n0 |-> [t |-> "b", v |-> FALSE]],mask |-> [cf |-> FALSE, rn |-> FALSE, fe |-> TRUE, ro |-> FALSE]])
    >>
----


=============================================================================

---- CONFIG MCTry_TTrace_1790414938 ----
CONSTANTS
    Big = FALSE

INVARIANT
    _inv

CHECK_DEADLOCK
    \* CHECK_DEADLOCK off because of PROPERTY or INVARIANT above.
    FALSE

INIT
    _init

NEXT
    _next

CONSTANT
    _TETrace <- _trace

ALIAS
    _expression
=============================================================================
\* Generated on Sat Sep 26 09:29:44 UTC 2026