------------------------------ MODULE Fetchers ------------------------------
(***************************************************************************)
(* The library's own variable contexts (variable.go:75-165): the slice     *)
(* fetcher, the map fetcher, and NewCtxFromVars' choice between them.      *)
(* TryEval's meaning (C04, C05) is stated against "which variables the     *)
(* fetcher reports as cached"; for the two library fetchers that is:       *)
(*   slice: every key below the slice length (every registered variable:   *)
(*          one without a value reads as nil);                             *)
(*   map:   exactly the names present in the map.                          *)
(* A fetcher state is a record; Get/Set/Cached are the three methods, with *)
(* the (key, name) pair the engine passes (slice looks at the key only,    *)
(* map at the name only).                                                  *)
(***************************************************************************)
EXTENDS Values

KeysOf(km) == {km[n] : n \in DOMAIN km}
MinOf(X) == CHOOSE x \in X : \A y \in X : x <= y
MaxOf(X) == CHOOSE x \in X : \A y \in X : x >= y

\* NewCtxFromVars (variable.go:75-91): the slice fetcher needs registered keys, all in 0..255
FitsSlice(km) == DOMAIN km # {} /\ MinOf(KeysOf(km)) >= 0 /\ MaxOf(KeysOf(km)) < 256
KindFor(km, undef) == IF undef \/ ~FitsSlice(km) THEN "map" ELSE "slice"

\* vals: a function from the names that have a value to their (unified) value; km injective
NewSlice(km, vals) ==
  LET top == MaxOf(KeysOf(km)) IN
  [kind |-> "slice", len |-> top + 1,
   cells |-> [k \in 0..top |-> IF \E n \in DOMAIN km \cap DOMAIN vals : km[n] = k
                               THEN vals[CHOOSE n \in DOMAIN km \cap DOMAIN vals : km[n] = k] ELSE NIL]]
NewMap(vals) == [kind |-> "map", len |-> 0, cells |-> vals]
NewCtx(km, undef, vals) == IF KindFor(km, undef) = "slice" THEN NewSlice(km, vals) ELSE NewMap(vals)

\* a negative key indexes the slice out of range: a Go panic (the engine only passes registered keys,
\* and NewCtxFromVars builds a slice only when those are >= 0)
Get(f, key, name) ==
  IF f.kind = "slice"
  THEN IF key >= f.len THEN E("other") ELSE IF key < 0 THEN Panic("index") ELSE f.cells[key]
  ELSE IF name \in DOMAIN f.cells THEN f.cells[name] ELSE E("other")
Cached(f, key, name) ==
  IF f.kind = "slice" THEN key < f.len ELSE name \in DOMAIN f.cells
\* Set returns [f |-> the new state, res |-> B(TRUE) or the error]
Set(f, key, name, val) ==
  IF f.kind = "slice"
  THEN IF key >= f.len THEN [f |-> f, res |-> E("other")]
       ELSE IF key < 0 THEN [f |-> f, res |-> Panic("index")]
       ELSE [f |-> [f EXCEPT !.cells[key] = val], res |-> B(TRUE)]
  ELSE [f |-> [f EXCEPT !.cells = [n \in DOMAIN f.cells \cup {name} |-> IF n = name THEN val ELSE f.cells[n]]],
        res |-> B(TRUE)]

\* what TryEval is entitled to assume of a context (the "truthful fetcher" of C04/C05), for the
\* registered variables: a cached variable can be read
Truthful(f, km) == \A n \in DOMAIN km : Cached(f, km[n], n) => Ok(Get(f, km[n], n))
\* the available set and the binding a library context stands for
Avail(f, km) == {n \in DOMAIN km : Cached(f, km[n], n)}
Binding(f, km) == [n \in Avail(f, km) |-> Get(f, km[n], n)]
=============================================================================
