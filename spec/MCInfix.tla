------------------------------- MODULE MCInfix -------------------------------
(***************************************************************************)
(* Property C15 at model level: InfixRoundTrip.  Every typed tree of the   *)
(* bounded set over one or two operators per precedence level, unary `!`,  *)
(* calls f(..) with 0-3 arguments, if(c, a, b), bracket lists and          *)
(* REDUNDANT parentheses (the pseudo node "paren") is rendered to infix    *)
(* tokens with minimal parentheses (a child is parenthesised exactly when  *)
(* the precedence table and left associativity require it) and parsed by   *)
(* the shunting-yard model of Parser.tla: the result must be the tree      *)
(* itself (paren nodes stripped), and equal to what the prefix parser      *)
(* makes of the prefix rendering.                                          *)
(***************************************************************************)
EXTENDS Parser
CONSTANT Big

Tk(ty, tx) == [ty |-> ty, tx |-> tx]
Chars(nm) == CASE nm = "==" -> <<"=", "=">> [] nm = "&&" -> <<"&", "&">> [] nm = "||" -> <<"|", "|">>
               [] nm = "!=" -> <<"!", "=">> [] nm = "<=" -> <<"<", "=">> [] nm = "if" -> <<"i", "f">>
               [] nm = "in" -> <<"i", "n">> [] nm = "true" -> <<"t", "r", "u", "e">> [] OTHER -> <<nm>>
Id(nm) == Tk("ident", Chars(nm))
LP == Tk("lParen", <<"(">>)
RP == Tk("rParen", <<")">>)
CM == Tk("comma", <<",">>)
Paren(t) == O("paren", <<t>>)
InfixBin == {"*", "/", "%", "+", "-", "=", "==", "!=", "<", ">", "<=", ">=", "&", "&&", "|", "||"}

\* precedence of a tree as an operand (leaves, calls, lists, parenthesised: highest)
PrecOf(t) == IF t.k = "o" /\ t.v \in InfixBin /\ Len(t.kids) = 2 THEN Prec(t.v)
             ELSE IF t.k = "o" /\ t.v = "!" THEN 6 ELSE 99

RECURSIVE RI(_, _)
\* RI(t, need): tokens of t where the context needs precedence >= need
RI(t, need) ==
  LET body ==
        CASE t.k = "v" -> <<Id(t.v)>>
          [] t.k = "c" -> (CASE t.v.t = "i" -> <<Tk("integer", <<"1">>)>>
                             [] t.v.t = "b" -> <<Id("true")>>
                             [] t.v.t = "s" -> <<Tk("str", <<"a">>)>>
                             [] OTHER -> <<Tk("lBracket", <<"[">>)>> \o [k \in 1..Len(t.v.v) |-> Tk("integer", <<"1">>)] \o <<Tk("rBracket", <<"]">>)>>)
          [] t.k = "o" /\ t.v = "paren" -> <<LP>> \o RI(t.kids[1], 0) \o <<RP>>
          [] t.k = "o" /\ t.v \in InfixBin /\ Len(t.kids) = 2 ->
               RI(t.kids[1], Prec(t.v)) \o <<Id(t.v)>> \o RI(t.kids[2], Prec(t.v) + 1)
          [] t.k = "o" /\ t.v = "!" -> <<Id("!")>> \o RI(t.kids[1], 7)
          [] OTHER -> \* call: name ( a , b , ... )
               LET nm == IF t.k = "if" THEN "if" ELSE t.v
                   RECURSIVE args(_, _)
                   args(i, acc) == IF i > Len(t.kids) THEN acc
                                   ELSE args(i + 1, acc \o (IF i > 1 THEN <<CM>> ELSE <<>>) \o RI(t.kids[i], 0))
               IN <<Id(nm), LP>> \o args(1, <<>>) \o <<RP>>
  IN IF PrecOf(t) < need THEN <<LP>> \o body \o <<RP>> ELSE body
RenderInfix(t) == RI(t, 0)

RECURSIVE Strip(_)
Strip(t) == IF t.k = "o" /\ t.v = "paren" THEN Strip(t.kids[1])
            ELSE [t EXCEPT !.kids = [i \in 1..Len(t.kids) |-> Strip(t.kids[i])]]

RECURSIVE RP0(_)
RP0(t) ==   \* prefix rendering of a paren-free tree
  CASE t.k = "v" -> <<Id(t.v)>>
    [] t.k = "c" -> (CASE t.v.t = "i" -> <<Tk("integer", <<"1">>)>>
                       [] t.v.t = "b" -> <<Id("true")>>
                       [] t.v.t = "s" -> <<Tk("str", <<"a">>)>>
                       [] OTHER -> <<LP>> \o [k \in 1..Len(t.v.v) |-> Tk("integer", <<"1">>)] \o <<RP>>)
    [] OTHER -> LET nm == IF t.k = "if" THEN "if" ELSE t.v
                    RECURSIVE ks(_, _)
                    ks(i, acc) == IF i > Len(t.kids) THEN acc ELSE ks(i + 1, acc \o RP0(t.kids[i]))
                IN <<LP, Id(nm)>> \o ks(1, <<>>) \o <<RP>>

\* ---- the bounded set of typed trees ----
IL0 == {V("n"), C(I(1))}
BL0 == {V("x"), C(B(TRUE))}
Ar == {"*", "+"}
Cm == {"==", "<"}
Lg == {"&&", "||"}
I1 == IL0 \cup {O(o, <<a, b>>) : o \in Ar, a \in IL0, b \in IL0} \cup {O("f", <<a>>) : a \in IL0}
          \cup {Paren(a) : a \in {V("n")}} \cup {O("f", <<>>)}
I2 == I1 \cup {O(o, <<a, b>>) : o \in Ar, a \in I1, b \in I1}
         \cup {Paren(O("+", <<V("n"), C(I(1))>>))} \cup {O("f", <<a, b>>) : a \in I1 \ IL0, b \in IL0}
B1 == BL0 \cup {O(o, <<a, b>>) : o \in Cm, a \in I1, b \in IL0} \cup {O("!", <<a>>) : a \in BL0}
          \cup {O("in", <<V("n"), C(IL(<<1, 1>>))>>), O("in", <<V("n"), C(SL(<<>>))>>)}
          \cup {O(o, <<a, b>>) : o \in Lg, a \in BL0, b \in BL0}
B2 == {O(o, <<a, b>>) : o \in Cm, a \in I2, b \in I1}
      \cup {O(o, <<a, b>>) : o \in Lg, a \in B1, b \in B1}
      \cup {O("!", <<a>>) : a \in B1} \cup {Paren(a) : a \in B1 \ BL0}
      \cup {If(c, a, b) : c \in B1 \ BL0, a \in {V("x")}, b \in B1 \ BL0}
      \cup {If(c, a, b) : c \in {V("x")}, a \in I1 \ IL0, b \in I1 \ IL0}
      \cup {O("f", <<a, b, c>>) : a \in B1 \ BL0, b \in {V("n")}, c \in I1 \ IL0}
B3 == {O(o, <<a, b>>) : o \in Lg, a \in {t \in B2 : t.k = "o" /\ t.v \in Lg \cup {"!", "paren"}}, b \in {V("x"), O("!", <<V("x")>>), O("==", <<V("n"), C(I(1))>>)}}
      \cup {O(o, <<b, a>>) : o \in Lg, a \in {t \in B2 : t.k = "o" /\ t.v \in Lg \cup {"!", "paren"}}, b \in {V("x"), O("!", <<V("x")>>)}}
Alt == {O(o, <<a, b>>) : o \in {"-", "%", "/", "!=", ">=", ">", "<=", "=", "&", "|"}, a \in I1, b \in I1 \ IL0}
Trees == IF Big THEN B2 \cup B3 \cup Alt ELSE B2

PCI == [StdPC EXCEPT !.ops = {"f", "g", "h", "p", "one", "zt", "zf"}]
\* (initial states are enumerated by one thread: the set is entered through one state per
\* top-level shape, so that the workers share the trees)
VARIABLE t
Tops == {"&&", "||", "&", "|", "==", "<", "!=", ">=", ">", "<=", "=", "-", "%", "/", "!", "paren", "if", "f"}
TopOf(u) == IF u.k = "if" THEN "if" ELSE u.v
Init == t \in {[k |-> "top", v |-> o, kids |-> <<>>] : o \in Tops}
Next == t.k = "top" /\ t' \in {u \in Trees : TopOf(u) = t.v}
Spec == Init /\ [][Next]_t

InfixRoundTrip ==
  t.k = "top" \/
  LET p == ParseInfix(RenderInfix(t), PCI, FALSE, FALSE) IN
  p.r = "ok" /\ p.tree = Strip(t)
SameAsPrefix ==
  t.k = "top" \/
  LET p == ParseInfix(RenderInfix(t), PCI, FALSE, FALSE)
      q == ParsePrefix(RP0(Strip(t)), PCI, FALSE)
  IN (Strip(t).k \notin {"c", "v"}) => (q.r = "ok" /\ p.r = "ok" /\ p.tree = q.tree)
=============================================================================
