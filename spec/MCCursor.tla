------------------------------ MODULE MCCursor ------------------------------
(***************************************************************************)
(* Properties C06 / C14, the "never hangs" half, at character level: the   *)
(* lexer (one NextToken per step) and the formatter (one loop iteration    *)
(* per step) as cursor machines over every text up to MaxLen.              *)
(*   CursorAdvances  every step moves its cursor strictly forward          *)
(*   Terminates      under weak fairness of the steps both reach the end   *)
(*   Refines         what the step machines produce is Lex / Format        *)
(* (A formatter whose comment arm can leave the cursor where it was -- the *)
(* seeded change R6-F2 -- violates CursorAdvances; on the real code that   *)
(* is what the harness' watchdog reports as "formatter-does-not-return".)  *)
(***************************************************************************)
EXTENDS Formatter
CONSTANTS MaxLen, StringAware
Chars == {"(", ")", "[", ",", ";", "Q", "SP", "NL", "a", "1", "!"}
VARIABLES s, ph, li, lt, fs
vars == <<s, ph, li, lt, fs>>

Init == s = <<>> /\ ph = "build" /\ li = 1 /\ lt = <<>> /\ fs = FmtInit
Grow == /\ ph = "build" /\ Len(s) < MaxLen
        /\ \E c \in Chars : s' = Append(s, c)
        /\ UNCHANGED <<ph, li, lt, fs>>
Start == ph = "build" /\ ph' = "run" /\ UNCHANGED <<s, li, lt, fs>>
\* one token of the lexer (prefix notation): li is the cursor, lt the kinds seen
LexStep == /\ ph = "run" /\ li <= Len(s)
           /\ LET t == NextToken(s, li) IN li' = t.next /\ lt' = Append(lt, t.kind)
           /\ UNCHANGED <<s, ph, fs>>
FmtStepA == /\ ph = "run" /\ li > Len(s) /\ fs.i <= Len(s)      \* (after the lexer: the two do not interact)
            /\ fs' = FmtStep(s, fs, StringAware)
            /\ UNCHANGED <<s, ph, li, lt>>
Next == Grow \/ Start \/ LexStep \/ FmtStepA
Spec == Init /\ [][Next]_vars /\ WF_vars(LexStep) /\ WF_vars(FmtStepA)

CursorAdvances == [][(li' >= li) /\ (fs'.i >= fs.i) /\ (li' # li => li' > li) /\ (ph = "run" /\ fs' # fs => fs'.i > fs.i) /\ (ph = "run" /\ lt' # lt => li' > li)]_vars
CursorInRange == li <= Len(s) + 1 /\ fs.i <= Len(s) + 1
Terminates == (ph = "run") ~> (li > Len(s) /\ fs.i > Len(s))
Refines == (ph = "run" /\ fs.i > Len(s)) => TrimL(TrimR(fs.out)) = Format(s, StringAware)
=============================================================================
