------------------------------ MODULE JudgeTry ------------------------------
(***************************************************************************)
(* Trace validation for the "try" family (C04, C05): TryEval/TryEvalBool   *)
(* outcomes recorded from the real code under truthful availability        *)
(* splits, and Eval outcomes under enumerated completions of the           *)
(* unavailable variables, judged against the specification.                *)
(***************************************************************************)
EXTENDS Machine, Json, IOUtils

Trace == ndJsonDeserialize(IOEnv.OBS)
VARIABLES l, judged, nontriv, skipped, drift, found
vars == <<l, judged, nontriv, skipped, drift, found>>
Idx(q) == 1..Len(q)
Card(X) == Cardinality(X)
ToSet(q) == {q[i] : i \in 1..Len(q)}

Merge(env, over) == [n \in DOMAIN env |-> IF n \in DOMAIN over THEN over[n] ELSE env[n]]
AllVars(r) == ToSet(r.vnames)

\* ---------------------------------------------------------------- C04
F04(r) ==
  LET v == r.var
      T(k) == r.tries[k].res
      av(k) == ToSet(r.tries[k].av)
  IN IF v.cout # "ok" THEN {} ELSE
     \* Sound: a definite answer equals Eval under every completion for which Eval succeeds
     {f \in {<<"C04", r.id, k, j, "sound">> : k \in Idx(r.tries), j \in 1..8} :
        LET t == r.tries[f[3]] IN
        f[4] <= Len(t.evals) /\ Definite(t.res) /\ Ok(t.evals[f[4]].res) /\ ~VEq(t.evals[f[4]].res, t.res)}
     \cup
     \* AgreeWhenAll: every variable available => not DNE, and same value when both succeed
     {f \in {<<"C04", r.id, k, 0, "agree-all">> : k \in Idx(r.tries)} :
        LET t == r.tries[f[3]] IN
        av(f[3]) = AllVars(r) /\ ~IsPanic(t.res) /\
        (IsDNE(t.res) \/ (Ok(t.res) /\ Ok(t.evals[1].res) /\ ~VEq(t.res, t.evals[1].res)))}
     \cup
     \* Monotone: more variables available never changes a definite answer
     {f \in {<<"C04", r.id, k, k2, "monotone">> : k \in Idx(r.tries), k2 \in Idx(r.tries)} :
        LET a == r.tries[f[3]]  b == r.tries[f[4]] IN
        a.e = b.e /\ av(f[3]) \subseteq av(f[4]) /\ Definite(a.res) /\ Definite(b.res) /\ ~VEq(a.res, b.res)}
     \cup
     {f \in {<<"C04", r.id, k, 0, "panic">> : k \in Idx(r.tries)} :
        IsPanic(r.tries[f[3]].res) \/ IsPanic(r.tries[f[3]].bres)}
     \cup
     \* TryEvalBool mirrors TryEval: ErrDNE exactly for DNE, the bool for a bool
     {f \in {<<"C04", r.id, k, 0, "trybool">> : k \in Idx(r.tries)} :
        LET t == r.tries[f[3]] IN
        ~IsPanic(t.res) /\ ~IsPanic(t.bres) /\
        ~(CASE IsDNE(t.res) -> IsErr(t.bres) /\ t.bres.v = "dne"
            [] IsErr(t.res) -> IsErr(t.bres) /\ t.bres.v # "dne"
            [] IsBool(t.res) -> VEq(t.bres, t.res)
            [] OTHER -> IsErr(t.bres) /\ t.bres.v # "dne")}

\* strict reading of "agree" when everything is available: both fail or both succeed.
\* On the pinned tree TryEval does not short-circuit out of if-branches (F-C04-1); the
\* finding is accepted as known only if the as-built TryEval machine of the
\* specification, run on the model's program, fails in exactly the same way.
K04(r) ==
  LET v == r.var IN
  IF v.cout # "ok" THEN {} ELSE
  {f \in {<<"C04", r.id, k, 0, "F-C04-1">> : k \in Idx(r.tries)} :
     LET t == r.tries[f[3]] IN
     ToSet(t.av) = AllVars(r) /\ ~IsPanic(t.res) /\ (Ok(t.res) # Ok(t.evals[1].res))}
K04Explained(r, f) ==
  LET t == r.tries[f[3]]
      v == r.var
      \* the program: as exported, else rebuilt from the REAL Dump tree (fast marking is a
      \* function of the tree shape), so cost maps the model cannot express do not matter
      L == IF v.hasprog THEN v.prog ELSE Layout(IF v.m.fe THEN FE(v.dtree) ELSE v.dtree)
      s == TryRun(L, r.envs[t.e], ToSet(t.av))
  IN v.dok /\ s.st = "done" /\ OutcomeEq(s.res, t.res) /\ IsErr(t.res) /\ Ok(t.evals[1].res)

\* ---------------------------------------------------------------- C05
InC05Domain(r, t) ==
  \* no sub-expression fails under the binding (which gives every variable a value;
  \* the split only says which of them are available)
  /\ NoSubFails(r.tree, r.envs[t.e])
Dom05(r) == {k \in Idx(r.tries) : InC05Domain(r, r.tries[k])}
F05on(r, dom) ==
  LET v == r.var IN
  IF v.cout # "ok" THEN {} ELSE
  UNION {LET t == r.tries[k]
             kv == Kleene(r.tree, r.envs[t.e], ToSet(t.av))
         IN (IF Definite(kv) /\ ~VEq(t.res, kv) THEN {<<"C05", r.id, k, 0, "informative">>} ELSE {})
            \cup (IF IsDNE(kv) /\ ~(IsDNE(t.res) \/ Definite(t.res)) THEN {<<"C05", r.id, k, 0, "undecided">>} ELSE {})
            \cup (IF (IsDNE(t.res) # (IsErr(t.bres) /\ t.bres.v = "dne")) \/ (IsBool(t.res) /\ ~VEq(t.bres, t.res))
                  THEN {<<"C05", r.id, k, 0, "trybool">>} ELSE {})
         : k \in dom}
NonTriv05(r, dom) ==
  Card({k \in dom : ToSet(r.tries[k].av) # AllVars(r) /\
                     Definite(Kleene(r.tree, r.envs[r.tries[k].e], ToSet(r.tries[k].av)))})

Counts04(r) ==
  IF r.var.cout # "ok" THEN [j |-> 0, n |-> 0, s |-> Len(r.tries)]
  ELSE [j |-> Len(r.tries),
        \* non-trivial: a definite answer although something is unavailable
        n |-> Card({k \in Idx(r.tries) : Definite(r.tries[k].res) /\ ToSet(r.tries[k].av) # AllVars(r)}),
        s |-> 0]

\* drift: the model TryEval machine on the REAL exported program vs the observation
Drifts(r) ==
  LET v == r.var IN
  IF v.cout # "ok" \/ ~v.hasprog THEN {} ELSE
  {f \in {<<"DRIFT", r.id, k, "tryrun">> : k \in Idx(r.tries)} :
     LET t == r.tries[f[3]]
         s == TryRun(v.prog, r.envs[t.e], ToSet(t.av))
     \* (tries through the library's own contexts have no observable fetches)
     IN s.st # "done" \/ ~OutcomeEq(s.res, t.res) \/ (t.lib = "" /\ Len(s.eff) # Len(t.eff))}
  \cup
  {f \in {<<"DRIFT", r.id, 0, "layout">>} :
     v.costs = "none" /\
     LET L == Layout(Optimize(r.tree, v.m, DefaultCfg)) IN
     ~ProgEq(IF v.ev = "" THEN L ELSE AddEvents(L), v.prog)}

\* ---------------------------------------------------------------- library contexts
\* A recorded history of Get/Set/Cached calls on a context built by the library is stepped through
\* Fetchers.tla.  What a fresh context says about a registered variable that WAS given a value is
\* property level (it is the premise "every variable is available" of C04 and the available set of
\* C05): available, and reading the unified value.  Everything else is the as-built fetcher: drift.
Fx == INSTANCE Fetchers
FKm(r) == [n \in {r.km[i].n : i \in Idx(r.km)} |-> r.km[CHOOSE i \in Idx(r.km) : r.km[i].n = n].k]
FVals(r) == [n \in {r.vals[i].n : i \in Idx(r.vals)} |-> r.vals[CHOOSE i \in Idx(r.vals) : r.vals[i].n = n].v]
FInit(r) ==
  CASE r.mode = "ctx" -> Fx!NewCtx(FKm(r), r.undef, FVals(r))
    [] r.mode = "slice" -> Fx!NewSlice(FKm(r), FVals(r))
    [] OTHER -> Fx!NewMap(FVals(r))
FSame(a, b) == IF IsPanic(a) \/ IsPanic(b) THEN IsPanic(a) /\ IsPanic(b) ELSE OutcomeEq(a, b)
\* the set of op indices whose observed result differs from the model's
FBad(r) ==
  LET RECURSIVE go(_, _, _)
      go(i, f, bad) ==
        IF i > Len(r.ops) THEN bad
        ELSE LET o == r.ops[i]
                 st == IF o.op = "set" THEN Fx!Set(f, o.k, o.n, o.val) ELSE [f |-> f, res |-> NIL]
                 exp == CASE o.op = "get" -> Fx!Get(f, o.k, o.n)
                          [] o.op = "cached" -> B(Fx!Cached(f, o.k, o.n))
                          [] OTHER -> st.res
             IN go(i + 1, st.f, IF FSame(exp, o.res) THEN bad ELSE bad \cup {i})
  IN go(1, FInit(r), {})
FFetch(r) ==
  IF r.kind = "panic" THEN {<<r.for, r.id, 0, 0, "ctx-panic">>}
  ELSE {f \in {<<r.for, r.id, i, 0, "ctx-binding">> : i \in Idx(r.ops)} :
          LET o == r.ops[f[3]] IN
          o.init /\ o.n \in DOMAIN FVals(r) /\
          (IF o.op = "cached" THEN ~VEq(o.res, B(TRUE)) ELSE ~VEq(o.res, FVals(r)[o.n]))}
DFetch(r) ==
  IF r.kind = "panic" THEN {} ELSE
  (IF r.kind # FInit(r).kind THEN {<<"DRIFT", r.id, 0, "fetcher-kind">>} ELSE {})
  \cup {<<"DRIFT", r.id, i, "fetcher">> : i \in FBad(r)}

Init == l = 1 /\ judged = 0 /\ nontriv = 0 /\ skipped = 0 /\ drift = 0 /\ found = 0
Next ==
  /\ l <= Len(Trace)
  /\ l' = l + 1
  /\ LET r == Trace[l]
         fetch == r.fam = "fetch"
         dom == IF ~fetch /\ r.for = "C05" /\ r.var.cout = "ok" THEN Dom05(r) ELSE {}
         F == IF fetch THEN FFetch(r) ELSE IF r.for = "C04" THEN F04(r) ELSE F05on(r, dom)
         K0 == IF ~fetch /\ r.for = "C04" THEN K04(r) ELSE {}
         K == {f \in K0 : K04Explained(r, f)}
         D == IF fetch THEN DFetch(r) ELSE Drifts(r)
         c == IF fetch THEN [j |-> Len(r.ops), n |-> Card({i \in Idx(r.ops) : r.ops[i].op = "set" \/ r.ops[i].init}), s |-> 0]
              ELSE IF r.for = "C04" THEN Counts04(r)
              ELSE [j |-> Card(dom), n |-> NonTriv05(r, dom), s |-> Len(r.tries) - Card(dom)]
     IN /\ \A f \in F : PrintT(<<"F", f[1], f[2], f[3], f[4], f[5]>>)
        /\ \A f \in K : PrintT(<<"K", f[1], f[2], f[3], f[4], f[5]>>)
        /\ \A f \in K0 \ K : PrintT(<<"F", f[1], f[2], f[3], f[4], "agree-strict-unexplained">>)
        /\ \A f \in D : PrintT(<<"DRIFT", f[2], f[3], f[4]>>)
        /\ judged' = judged + c.j
        /\ nontriv' = nontriv + c.n
        /\ skipped' = skipped + c.s
        /\ drift' = drift + (IF fetch THEN Len(r.ops) ELSE IF r.var.cout = "ok" /\ r.var.hasprog THEN Len(r.tries) ELSE 0)
        /\ found' = found + Card(F)
Spec == Init /\ [][Next]_vars
Done == l = Len(Trace) + 1 => PrintT(<<"SUMMARY", l - 1, judged, nontriv, skipped, drift, found>>)
Accepted == TLCGet("stats").diameter - 1 = Len(Trace)
=============================================================================
