------------------------------ MODULE Capacity ------------------------------
(***************************************************************************)
(* Property C09.  Parametric families of expressions whose operand counts, *)
(* node counts and stack needs straddle the capacity limits, with closed   *)
(* forms for: the tree, its node count and widest operator after           *)
(* optimization, its stack need, and its value.  The model check           *)
(* (MCCap.tla) proves the closed forms against the real model (Optimize,   *)
(* Layout, machine) on small parameters and checks RejectOrCorrect with    *)
(* scaled-down limits; the judge (JudgeCap.tla) applies the same closed    *)
(* forms with the REAL limits to observations of the real code.            *)
(*                                                                         *)
(* desc = [fam, op, a, b]                                                  *)
(*  "fan"     (op v v ... v)            a operands                         *)
(*  "nestfan" (op (op v..a) (op v..b))  op in and/or: flattens under RN    *)
(*  "chainR"  (op v (op v (... v)))     a operators, right-leaning         *)
(*  "chainL"  (op (op (... v v) v) v)   a operators, left-leaning          *)
(*  "chainZ"  (+ (one) (+ (one) (... (one))))  a operators over the        *)
(*            zero-operand operator `one`: the stack peaks at an OPERATOR  *)
(*  "cmpfan"  (op (= n n) ... (= n n))  a comparisons under and/or         *)
(*  "ifchain" (if x (if x (... n) n) n) a nested ifs in the true branch    *)
(*  "cmpfan2" (and (or (= n n)..b) ..a)  a groups of b fast comparisons    *)
(*            (fast operators get fewer event nodes; different kinds, so   *)
(*            nothing flattens)                                            *)
(*  "chainR3" (+ n n CHAIN)  a three-operand operator over a right-leaning *)
(*            chain of a operators: an EVEN node count                     *)
(*  "fanchain" (+ n ..a CHAIN(b))  a wide fan whose last operand is a deep *)
(*            chain: width and depth together                              *)
(* v is the variable n for arithmetic operators and x for and/or, so       *)
(* constant folding cannot remove anything.                                *)
(***************************************************************************)
EXTENDS Machine

IsBoolName(op) == op \in AndNames \cup OrNames
LeafOf(op) == IF IsBoolName(op) THEN V("x") ELSE V("n")
Rep(x, k) == [i \in 1..k |-> x]

RECURSIVE ChainR(_, _, _)
ChainR(op, v, a) == IF a = 0 THEN v ELSE O(op, <<v, ChainR(op, v, a - 1)>>)
RECURSIVE ChainL(_, _, _)
ChainL(op, v, a) == IF a = 0 THEN v ELSE O(op, <<ChainL(op, v, a - 1), v>>)
RECURSIVE IfChain(_)
IfChain(a) == IF a = 0 THEN V("n") ELSE If(V("x"), IfChain(a - 1), V("n"))

Build(d) ==
  CASE d.fam = "fan" -> O(d.op, Rep(LeafOf(d.op), d.a))
    [] d.fam = "nestfan" -> O(d.op, <<O(d.op, Rep(V("x"), d.a)), O(d.op, Rep(V("x"), d.b))>>)
    [] d.fam = "chainR" -> ChainR(d.op, LeafOf(d.op), d.a)
    [] d.fam = "chainL" -> ChainL(d.op, LeafOf(d.op), d.a)
    [] d.fam = "chainZ" -> ChainR(d.op, O("one", <<>>), d.a)       \* innermost leaf is a zero-operand operator call
    [] d.fam = "cmpfan" -> O(d.op, Rep(O("=", <<V("n"), V("n")>>), d.a))
    [] d.fam = "ifchain" -> O("+", <<IfChain(d.a), V("n")>>)
    [] d.fam = "cmpfan2" -> O("and", Rep(O("or", Rep(O("=", <<V("n"), V("n")>>), d.b)), d.a))
    [] d.fam = "chainR3" -> O("+", <<V("n"), V("n"), ChainR("+", V("n"), d.a)>>)
    [] d.fam = "fanchain" -> O("+", Rep(V("n"), d.a) \o <<ChainR("+", V("n"), d.b)>>)

Max2(a, b) == IF a > b THEN a ELSE b

\* ---- closed forms (after optimization under mask m) ----
\* ReduceNesting flattens nestfan, and and/or chains (every operand a leaf or same-kind node)
Flattens(d, m) == m.rn /\ IsBoolName(d.op) /\ d.fam \in {"nestfan", "chainR", "chainL"}
NodesOf(d, m) ==
  CASE d.fam = "fan" -> d.a + 1
    [] d.fam = "nestfan" -> IF Flattens(d, m) THEN d.a + d.b + 1 ELSE d.a + d.b + 3
    [] d.fam \in {"chainR", "chainL"} -> IF Flattens(d, m) /\ d.a >= 1 THEN d.a + 2 ELSE 2 * d.a + 1
    [] d.fam = "chainZ" -> 2 * d.a + 1
    [] d.fam = "cmpfan" -> 3 * d.a + 1
    [] d.fam = "ifchain" -> 4 * d.a + 3     \* per if: cond, IF, FI, else-leaf; + innermost n, outer n, +
    [] d.fam = "cmpfan2" -> 1 + d.a * (1 + 3 * d.b)
    [] d.fam = "chainR3" -> 2 * d.a + 4
    [] d.fam = "fanchain" -> d.a + 2 * d.b + 2
KidsOf(d, m) ==
  CASE d.fam = "fan" -> d.a
    [] d.fam = "nestfan" -> IF Flattens(d, m) THEN d.a + d.b ELSE Max2(2, Max2(d.a, d.b))
    [] d.fam \in {"chainR", "chainL"} -> IF d.a = 0 THEN 0 ELSE IF Flattens(d, m) THEN d.a + 1 ELSE 2
    [] d.fam = "chainZ" -> IF d.a = 0 THEN 0 ELSE 2
    [] d.fam = "cmpfan" -> Max2(2, d.a)
    [] d.fam = "ifchain" -> IF d.a = 0 THEN 2 ELSE 4
    [] d.fam = "cmpfan2" -> Max2(2, Max2(d.a, d.b))
    [] d.fam = "chainR3" -> 3
    [] d.fam = "fanchain" -> Max2(d.a + 1, IF d.b > 0 THEN 2 ELSE 0)
\* value under env (n an int, x a bool); and/or of copies of x is x; (= n n) is true
ValueOf(d, env) ==
  CASE d.fam = "cmpfan2" -> B(TRUE)
    [] d.fam = "chainR3" -> I((d.a + 3) * env.n.v)
    [] d.fam = "fanchain" -> I((d.a + d.b + 1) * env.n.v)
    [] IsBoolName(d.op) /\ d.fam # "cmpfan" /\ d.fam # "ifchain" -> env.x
    [] d.fam = "cmpfan" -> B(TRUE)
    [] d.fam = "fan" -> (CASE Canon(d.op) = "add" -> I(d.a * env.n.v) [] Canon(d.op) = "mul" -> I(env.n.v))
    [] d.fam \in {"chainR", "chainL"} -> I((d.a + 1) * env.n.v)
    [] d.fam = "chainZ" -> I(d.a + 1)
    [] d.fam = "ifchain" -> I(2 * env.n.v)

\* ---- the capacity rule (compiler.go: optimize, then check, then event doubling) ----
Outcome(d, m, events, lim, asBuilt) ==
  IF KidsOf(d, m) > lim.maxKids THEN "err"
  ELSE IF NodesOf(d, m) > lim.maxNodes THEN "err"
  ELSE IF events /\ 2 * NodesOf(d, m) > lim.maxNodes THEN (IF asBuilt THEN "panic" ELSE "err")
  ELSE "ok"
=============================================================================
