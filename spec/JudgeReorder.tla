------------------------------ MODULE JudgeReorder ------------------------------
(***************************************************************************)
(* Trace validation for property C16 on Dump trees of the real code:       *)
(* S = Reordering off (the input of the reordering pass: the other passes  *)
(* run before it), U = on under cost map M, U1 = on under M with the       *)
(* entry k raised, U2 = on under M with k := 1e300.                        *)
(***************************************************************************)
EXTENDS Layout, Json, IOUtils

Trace == ndJsonDeserialize(IOEnv.OBS)
VARIABLES l, judged, nontriv, skipped, drift, found
vars == <<l, judged, nontriv, skipped, drift, found>>
Idx(q) == 1..Len(q)
Card(X) == Cardinality(X)

RECURSIVE Mentions(_, _)
Mentions(u, k) == (u.k # "c" /\ u.v = k) \/ \E i \in 1..Len(u.kids) : Mentions(u.kids[i], k)
Before(u, b, a) == \E p, q \in 1..Len(u.kids) : p < q /\ PermEq(u.kids[p], b) /\ PermEq(u.kids[q], a)
Distinct(s) == \A i, j \in 1..Len(s.kids) : i # j => ~PermEq(s.kids[i], s.kids[j])

\* Monotone, on aligned nodes (u1, u2 are reorderings of s)
RECURSIVE MonoAt(_, _, _, _)
MonoAt(s, u1, u2, k) ==
  /\ (IsBoolOp(s) /\ Distinct(s)) =>
       \A i, j \in 1..Len(s.kids) :
          (Mentions(s.kids[i], k) /\ ~Mentions(s.kids[j], k) /\ Before(u1, s.kids[j], s.kids[i])) => Before(u2, s.kids[j], s.kids[i])
  /\ Distinct(s) => \A i \in 1..Len(s.kids) :
       \E p, q \in 1..Len(u1.kids) : PermEq(u1.kids[p], s.kids[i]) /\ PermEq(u2.kids[q], s.kids[i]) /\ MonoAt(s.kids[i], u1.kids[p], u2.kids[q], k)
RECURSIVE LastAt(_, _, _, _)
LastAt(s, u1, u2, k) ==
  /\ (IsBoolOp(s) /\ Distinct(s)) =>
       /\ \A i, j \in 1..Len(s.kids) : (Mentions(s.kids[i], k) /\ ~Mentions(s.kids[j], k)) => Before(u2, s.kids[j], s.kids[i])
       /\ \A i, j \in 1..Len(s.kids) :
            (~Mentions(s.kids[i], k) /\ ~Mentions(s.kids[j], k) /\ Before(u1, s.kids[i], s.kids[j])) => Before(u2, s.kids[i], s.kids[j])
  /\ Distinct(s) => \A i \in 1..Len(s.kids) :
       \E p, q \in 1..Len(u1.kids) : PermEq(u1.kids[p], s.kids[i]) /\ PermEq(u2.kids[q], s.kids[i]) /\ LastAt(s.kids[i], u1.kids[p], u2.kids[q], k)

\* Stable, without a cost function: operands that are equal up to renaming variables of
\* equal configured cost have equal cost whatever the estimate is, so they keep source order
RECURSIVE ShapeEq(_, _, _)
ShapeEq(a, b, vc) ==
  /\ a.k = b.k
  /\ (CASE a.k = "c" -> VEq(a.v, b.v)
        [] a.k = "v" -> (a.v \in DOMAIN vc /\ b.v \in DOMAIN vc /\ vc[a.v] = vc[b.v])
        [] OTHER -> a.v = b.v)
  /\ Len(a.kids) = Len(b.kids)
  /\ \A i \in 1..Len(a.kids) : ShapeEq(a.kids[i], b.kids[i], vc)
RECURSIVE HasBoolOp(_)
HasBoolOp(u) == IsBoolOp(u) \/ \E i \in 1..Len(u.kids) : HasBoolOp(u.kids[i])
\* the operands of s that are ShapeEq to operand i (and have no and/or inside, so that
\* they are compared exactly) appear in u in the same relative order as in s
ClassSeq(q, x, vc) == SelectSeq(q, LAMBDA y : ShapeEq(x, y, vc) /\ ~HasBoolOp(y))
SeqTreeEq(a, b) == Len(a) = Len(b) /\ \A i \in 1..Len(a) : TreeEq(a[i], b[i])
RECURSIVE StableAt(_, _, _)
StableAt(s, u, vc) ==
  IF IsBoolOp(s)
  THEN \A i \in 1..Len(s.kids) :
          HasBoolOp(s.kids[i]) \/ SeqTreeEq(ClassSeq(u.kids, s.kids[i], vc), ClassSeq(s.kids, s.kids[i], vc))
  ELSE Len(s.kids) = Len(u.kids) /\ \A i \in 1..Len(s.kids) : StableAt(s.kids[i], u.kids[i], vc)
\* a node where stability is observable: two distinguishable operands of one class
RECURSIVE HasSymmetric(_, _)
HasSymmetric(s, vc) ==
  \/ (IsBoolOp(s) /\ \E i, j \in 1..Len(s.kids) : i < j /\ ~HasBoolOp(s.kids[i]) /\ ShapeEq(s.kids[i], s.kids[j], vc)
                                                    /\ ~TreeEq(s.kids[i], s.kids[j]))
  \/ (~IsBoolOp(s) /\ \E i \in 1..Len(s.kids) : HasSymmetric(s.kids[i], vc))

Ok4(r) == r.off.cout = "ok" /\ r.on.cout = "ok" /\ r.raised.cout = "ok" /\ r.huge.cout = "ok" /\
          r.off.dok /\ r.on.dok /\ r.raised.dok /\ r.huge.dok
F(r) ==
  IF ~Ok4(r) THEN (IF r.off.cout # r.on.cout \/ r.on.cout # r.raised.cout \/ r.on.cout # r.huge.cout
                   THEN {<<"C16", r.id, 0, 0, "compile-differs">>} ELSE {})
  ELSE LET S0 == r.off.dtree  U == r.on.dtree  U1 == r.raised.dtree  U2 == r.huge.dtree
           mk(sig) == {<<"C16", r.id, 0, 0, sig>>}
       IN (IF ~PermEq(U, S0) \/ ~PermEq(U1, S0) \/ ~PermEq(U2, S0) THEN mk("not-a-permutation-of-and-or-operands") ELSE {})
          \cup (IF PermEq(U, S0) /\ ~StableAt(S0, U, r.vcost) THEN mk("equal-cost-operands-reordered") ELSE {})
          \cup (IF PermEq(U, S0) /\ PermEq(U1, S0) /\ ~MonoAt(S0, U, U1, r.k) THEN mk("raise-moved-operand-ahead") ELSE {})
          \cup (IF PermEq(U, S0) /\ PermEq(U2, S0) /\ ~LastAt(S0, U, U2, r.k) THEN mk("huge-cost-not-last") ELSE {})
\* drift: for integer cost maps the real order is the model's Reorder of S
Drifts(r) ==
  IF Ok4(r) /\ r.intmap /\
     ~TreeEq(Unfast(RO(IF r.m.fe THEN FE(r.off.dtree) ELSE r.off.dtree, r.icosts)), r.on.dtree)
  THEN {<<"DRIFT", r.id, 0, "reorder">>} ELSE {}

Init == l = 1 /\ judged = 0 /\ nontriv = 0 /\ skipped = 0 /\ drift = 0 /\ found = 0
Next ==
  /\ l <= Len(Trace)
  /\ l' = l + 1
  /\ LET r == Trace[l]
         Fs == F(r)
         D == Drifts(r)
     IN /\ \A f \in Fs : PrintT(<<"F", f[1], f[2], f[3], f[4], f[5]>>)
        /\ \A f \in D : PrintT(<<"DRIFT", f[2], f[3], f[4]>>)
        /\ judged' = judged + (IF Ok4(r) THEN 4 ELSE 0)
        /\ nontriv' = nontriv + (IF Ok4(r) /\ (~TreeEq(r.off.dtree, r.on.dtree) \/ ~TreeEq(r.on.dtree, r.huge.dtree)
                                              \/ HasSymmetric(r.off.dtree, r.vcost)) THEN 4 ELSE 0)
        /\ skipped' = skipped + (IF Ok4(r) THEN 0 ELSE 4)
        /\ drift' = drift + (IF Ok4(r) /\ r.intmap THEN 1 ELSE 0)
        /\ found' = found + Card(Fs)
Spec == Init /\ [][Next]_vars
Done == l = Len(Trace) + 1 => PrintT(<<"SUMMARY", l - 1, judged, nontriv, skipped, drift, found>>)
Accepted == TLCGet("stats").diameter - 1 = Len(Trace)
=============================================================================
