------------------------------ MODULE MCReorder ------------------------------
(***************************************************************************)
(* Property C16 at model level, on Optimizer!RO (integer costs): for every *)
(* tree of the bounded set, every cost map over {absent, -3, 0, 50} for    *)
(* the names x, y, f and the class keys, and every single-entry raise:     *)
(*   PermutationOnly  only and/or operand lists are permuted               *)
(*   Stable           equal cost => source order                          *)
(*   Monotone         raising the cost of k never moves an operand that    *)
(*                    mentions k ahead of a sibling that does not          *)
(*   EventuallyLast   with a huge cost of k all operands mentioning k      *)
(*                    come last, the others keep their relative order      *)
(***************************************************************************)
EXTENDS Optimizer
CONSTANT Big

Lv == {V("x"), V("y"), V("z"), C(B(TRUE))}
A1 == Lv \cup {O("not", <<a>>) : a \in {V("x"), V("y")}} \cup {O("f", <<a>>) : a \in {V("x"), V("z")}}
         \cup {O("eq", <<a, b>>) : a \in {V("x"), V("z")}, b \in {V("y"), V("z")}}
         \cup {If(V("z"), a, b) : a \in {V("x"), V("y")}, b \in {V("y"), V("z")}}
T2 == {O(o, <<a, b>>) : o \in {"and", "or"}, a \in A1, b \in A1}
T3 == {O(o, <<a, b, c>>) : o \in {"and", "or"}, a \in A1 \ Lv, b \in {V("x"), V("y")}, c \in A1 \ Lv}
Nest == {O(o, <<a, O(o2, <<b, c>>), d>>) : o \in {"and", "or"}, o2 \in {"and", "or"}, a \in {V("y"), O("f", <<V("x")>>)},
                                            b \in {V("x"), O("not", <<V("y")>>)}, c \in {V("z"), V("x")}, d \in {V("x"), V("z")}}
        \cup {O("eq", <<O("and", <<a, b>>), O("or", <<b, a>>)>>) : a \in {V("x"), O("f", <<V("z")>>)}, b \in {V("y"), O("not", <<V("x")>>)}}
Trees == IF Big THEN T2 \cup T3 \cup Nest ELSE {t \in T2 : t.kids[1] \notin Lv \/ t.kids[2] \notin Lv} \cup Nest
Keys == {"x", "y", "f", "variable", "operator"}
Vals == {-3, 0, 50}
CostMaps == UNION {[D -> Vals] : D \in SUBSET Keys}
SmallMaps == {m \in CostMaps : Cardinality(DOMAIN m) <= 2}

VARIABLES t, M
vars == <<t, M>>
Init == t \in Trees /\ M = <<>>
Pick == M = <<>> /\ M' \in (IF Big THEN CostMaps ELSE SmallMaps) \ {<<>>} /\ UNCHANGED t
Spec == Init /\ [][Pick]_vars

RECURSIVE Mentions(_, _)
Mentions(u, k) == (u.k # "c" /\ u.v = k) \/ \E i \in 1..Len(u.kids) : Mentions(u.kids[i], k)
\* class keys stand for every variable / operator without an entry of its own
RECURSIVE MentionsKey(_, _, _)
MentionsKey(u, k, m) ==
  \/ (u.k = "v" /\ (u.v = k \/ (k = "variable" /\ u.v \notin DOMAIN m)))
  \/ (u.k \in {"o", "f"} /\ (u.v = k \/ (k = "operator" /\ u.v \notin DOMAIN m)))
  \/ \E i \in 1..Len(u.kids) : MentionsKey(u.kids[i], k, m)

Raise(m, k, d) == [x \in DOMAIN m \cup {k} |-> IF x = k THEN (IF k \in DOMAIN m THEN m[k] ELSE
                                                               IF k = "variable" THEN 7 ELSE IF k = "operator" THEN 10
                                                               ELSE IF k \in {"x", "y", "z"} THEN (IF "variable" \in DOMAIN m THEN m["variable"] ELSE 7)
                                                               ELSE (IF "operator" \in DOMAIN m THEN m["operator"] ELSE 10)) + d
                                          ELSE m[x]]

PermutationOnly == PermEq(RO(t, M), t)
\* positions: index in the source operand list of each operand of the reordered node
\* (recursively aligned: u is a reordering of s)
RECURSIVE StableAt(_, _, _)
StableAt(s, u, m) ==
  /\ IsBoolOp(s) =>
       \A i, j \in 1..Len(s.kids) :
          (i < j /\ Cost(s.kids[i], m) = Cost(s.kids[j], m)) =>
             \E p, q \in 1..Len(u.kids) : p < q /\ PermEq(u.kids[p], s.kids[i]) /\ PermEq(u.kids[q], s.kids[j])
  /\ \A i \in 1..Len(s.kids) : \E p \in 1..Len(u.kids) : PermEq(u.kids[p], s.kids[i]) /\ StableAt(s.kids[i], u.kids[p], m)
Stable == StableAt(t, RO(t, M), M)

\* b (not mentioning k) is before a (mentioning k) in u
Before(u, b, a) == \E p, q \in 1..Len(u.kids) : p < q /\ PermEq(u.kids[p], b) /\ PermEq(u.kids[q], a)
Distinct(s) == \A i, j \in 1..Len(s.kids) : i # j => ~PermEq(s.kids[i], s.kids[j])
RECURSIVE MonoAt(_, _, _, _, _)
MonoAt(s, u1, u2, k, m) ==
  /\ (IsBoolOp(s) /\ Distinct(s)) =>
       \A i, j \in 1..Len(s.kids) :
          (MentionsKey(s.kids[i], k, m) /\ ~MentionsKey(s.kids[j], k, m) /\ Before(u1, s.kids[j], s.kids[i]))
             => Before(u2, s.kids[j], s.kids[i])
  /\ Distinct(s) => \A i \in 1..Len(s.kids) :
       \E p, q \in 1..Len(u1.kids) : PermEq(u1.kids[p], s.kids[i]) /\ PermEq(u2.kids[q], s.kids[i])
                                     /\ MonoAt(s.kids[i], u1.kids[p], u2.kids[q], k, m)
Monotone == \A k \in Keys : \A d \in {1, 40} : MonoAt(t, RO(t, M), RO(t, Raise(M, k, d)), k, M)

RECURSIVE LastAt(_, _, _, _, _)
LastAt(s, u1, u2, k, m) ==
  /\ (IsBoolOp(s) /\ Distinct(s)) =>
       /\ \A i, j \in 1..Len(s.kids) :
            (MentionsKey(s.kids[i], k, m) /\ ~MentionsKey(s.kids[j], k, m)) => Before(u2, s.kids[j], s.kids[i])
       /\ \A i, j \in 1..Len(s.kids) :
            (~MentionsKey(s.kids[i], k, m) /\ ~MentionsKey(s.kids[j], k, m) /\ Before(u1, s.kids[i], s.kids[j]))
               => Before(u2, s.kids[i], s.kids[j])
  /\ Distinct(s) => \A i \in 1..Len(s.kids) :
       \E p, q \in 1..Len(u1.kids) : PermEq(u1.kids[p], s.kids[i]) /\ PermEq(u2.kids[q], s.kids[i])
                                     /\ LastAt(s.kids[i], u1.kids[p], u2.kids[q], k, m)
EventuallyLast == \A k \in Keys : LastAt(t, RO(t, M), RO(t, Raise(M, k, 100000)), k, M)
=============================================================================
