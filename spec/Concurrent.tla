------------------------------ MODULE Concurrent ------------------------------
(***************************************************************************)
(* Property C07: N evaluations of ONE shared compiled program, each with   *)
(* its own binding, interleaved.  A process step runs its evaluator up to  *)
(* and including its next externally visible effect (a variable fetch or a *)
(* registered-operator call) -- the points where the real calls can be     *)
(* made to interleave deterministically (gates in the harness' fetcher and *)
(* operators).  The program is shared and read-only; every other piece of  *)
(* evaluation state (pc, operand stack, argument buffer) is per process.   *)
(*   Isolation: a finished call returned what it returns alone, with the   *)
(*   same effects.  `sched` records the interleaving; every terminal state *)
(*   prints it, and the harness replays each schedule on the real code.    *)
(* SharedStack = TRUE is the mutant "operand stack kept in the shared      *)
(* program": TLC then finds a schedule that breaks Isolation.              *)
(* TryProcs: the processes that call TryEval (with the variables           *)
(* ConcProgs!Unavail(p) unavailable) instead of Eval, so that schedules    *)
(* interleave the two evaluators on one program.                           *)
(***************************************************************************)
EXTENDS ConcProgs
CONSTANTS NProc, SharedStack, Emit, TryProcs

VARIABLES prog, L, s, sched, shared
vars == <<prog, L, s, sched, shared>>

\* with three processes only the program with the fewest effects (the schedule count is multinomial)
ProgIdx == IF NProc >= 3 THEN {4} ELSE 1..Len(Progs)
Init == /\ prog \in ProgIdx
        /\ L = Layout(Optimize(Progs[prog], MaskOf(prog), DefaultCfg))
        /\ s = [p \in 1..NProc |-> InitState(L, 0)]
        /\ sched = <<>>
        /\ shared = <<>>       \* the shared operand stack of the mutant

\* run process state st (with binding e) until its effect log grows or it stops
StepOf(p, e, st) == IF p \in TryProcs THEN TryNext(L, e, AvOf(p), st, FALSE, TRUE) ELSE EvalNext(L, e, st, FALSE, TRUE)
RECURSIVE ToEffect(_, _, _, _)
ToEffect(p, e, st, n0) ==
  IF st.st # "run" \/ Len(st.eff) > n0 THEN st
  ELSE ToEffect(p, e, StepOf(p, e, st), n0)

Advance(p) ==
  /\ s[p].st = "run"
  /\ LET cur == IF SharedStack /\ shared # <<>> THEN [s[p] EXCEPT !.os = shared] ELSE s[p]
         nxt == ToEffect(p, EnvOf(p), cur, Len(cur.eff))
     IN /\ s' = [s EXCEPT ![p] = nxt]
        /\ shared' = IF SharedStack THEN nxt.os ELSE shared
        /\ sched' = Append(sched, <<p, Len(nxt.eff) - Len(cur.eff)>>)
  /\ UNCHANGED <<prog, L>>
Next == \E p \in 1..NProc : Advance(p)
Spec == Init /\ [][Next]_vars

AllDone == \A p \in 1..NProc : s[p].st # "run"
Solo(p) == IF p \in TryProcs THEN TryRun(L, EnvOf(p), AvOf(p)) ELSE Run(L, EnvOf(p))
Isolation == \A p \in 1..NProc :
               s[p].st = "done" => (OutcomeEq(s[p].res, Solo(p).res) /\ Len(s[p].eff) = Len(Solo(p).eff))
NoPanic == \A p \in 1..NProc : s[p].st \in {"run", "done"}
ProgramImmutable == [][L' = L]_vars
\* every terminal state prints its schedule for replay on the real code
EmitSchedules == (Emit /\ AllDone) => PrintT("CASE " \o ToString(prog) \o " try=" \o ToString(TryProcs) \o " " \o ToString(sched))
=============================================================================
