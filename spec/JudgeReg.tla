-------------------------------- MODULE JudgeReg --------------------------------
(***************************************************************************)
(* Trace validation for property C11.  A line is one registration history  *)
(* on a real Config: the key map before, then after each step (one trace   *)
(* action per step, the model's km carried along), and the values the      *)
(* variables read through compiled expressions under each fetcher.         *)
(***************************************************************************)
EXTENDS Registry, Json, IOUtils

Trace == ndJsonDeserialize(IOEnv.OBS)
VARIABLES l, judged, nontriv, skipped, drift, found
vars == <<l, judged, nontriv, skipped, drift, found>>
Idx(q) == 1..Len(q)
Card(X) == Cardinality(X)
VEq(a, b) == a.t = b.t /\ a.v = b.v

\* km before step k
KmBefore(r, k) == IF k = 1 THEN r.km0 ELSE r.steps[k - 1].km
\* the model's key map after replaying steps 1..k on km0 (registration order of a
\* RegVarAndOp set is Go's map iteration order: any order is allowed, so only the
\* order-independent facts are judged for those steps)
FStep(r, k) ==
  LET st == r.steps[k]
      before == KmBefore(r, k)
      mk(sig) == {<<"C11", r.id, k, 0, sig>>}
  IN (IF ~Injective(st.km) THEN mk("key-assigned-to-two-names") ELSE {})
     \cup (IF ~Extends(before, st.km) THEN mk("existing-assignment-changed") ELSE {})
     \cup (IF \E i \in Idx(st.names) : st.names[i] \notin DOMAIN st.km THEN mk("name-not-registered") ELSE {})
     \cup (IF DOMAIN st.km # DOMAIN before \cup {st.names[i] : i \in Idx(st.names)} THEN mk("unexpected-names") ELSE {})
     \cup (IF st.op = "reg" /\ st.names[1] \in DOMAIN st.km /\ st.km[st.names[1]] # st.key THEN mk("returned-key-differs") ELSE {})
     \cup (IF st.op = "reg" /\ st.names[1] \in DOMAIN before /\ st.km # before THEN mk("re-registration-changed-map") ELSE {})
DStep(r, k) ==
  LET st == r.steps[k]  before == KmBefore(r, k) IN
  IF st.op = "reg" /\ Injective(before) /\ st.key # KeyFor(before, st.names[1]) THEN {<<"DRIFT", r.id, k, "key-allocation">>} ELSE {}

FReads(r) ==
  {f \in {<<"C11", r.id, k, 0, sig>> : k \in Idx(r.reads), sig \in {"read-fails", "wrong-value"}} :
     LET rd == r.reads[f[3]] IN
     CASE f[5] = "read-fails" -> rd.out # "b"
       [] f[5] = "wrong-value" -> rd.out = "b" /\
            (Len(rd.vals) # Len(rd.names) \/ \E i \in Idx(rd.names) : ~VEq(rd.vals[i], Normalise(r.bind[rd.names[i]])))}
DChosen(r) ==
  IF r.chosen # "none" /\ Len(r.steps) > 0 /\
     (r.chosen = "eval.SliceVarFetcher") # (Choose(r.steps[Len(r.steps)].km, r.undef) = "slice")
  THEN {<<"DRIFT", r.id, 0, "fetcher-choice">>} ELSE {}

Init == l = 1 /\ judged = 0 /\ nontriv = 0 /\ skipped = 0 /\ drift = 0 /\ found = 0
Next ==
  /\ l <= Len(Trace)
  /\ l' = l + 1
  /\ LET r == Trace[l]
         F == UNION {FStep(r, k) : k \in Idx(r.steps)} \cup FReads(r)
              \cup (IF ~Injective(r.km0) THEN {<<"C11", r.id, 0, 0, "harness: pre-populated map not injective">>} ELSE {})
         D == UNION {DStep(r, k) : k \in Idx(r.steps)} \cup DChosen(r)
     IN /\ \A f \in F : PrintT(<<"F", f[1], f[2], f[3], f[4], f[5]>>)
        /\ \A f \in D : PrintT(<<"DRIFT", f[2], f[3], f[4]>>)
        /\ judged' = judged + Len(r.steps) + Len(r.reads)
        /\ nontriv' = nontriv + Card({k \in Idx(r.steps) : r.steps[k].km # KmBefore(r, k) /\ DOMAIN KmBefore(r, k) # {}})
                              + Card({k \in Idx(r.reads) : Len(r.reads[k].names) >= 2})
        /\ skipped' = skipped
        /\ drift' = drift + Len(r.steps) + 1
        /\ found' = found + Card(F)
Spec == Init /\ [][Next]_vars
Done == l = Len(Trace) + 1 => PrintT(<<"SUMMARY", l - 1, judged, nontriv, skipped, drift, found>>)
Accepted == TLCGet("stats").diameter - 1 = Len(Trace)
=============================================================================
