------------------------------- MODULE MCEval -------------------------------
(***************************************************************************)
(* Exhaustive bounded model check of the evaluator pipeline               *)
(*      tree --Optimize--> tree --Layout--> flat program --Eval machine--> *)
(* Every machine step is a TLC state.  For every tree of the bounded set,  *)
(* every option subset (Reordering as ANY permutation of and/or operands,  *)
(* which over-approximates every CostsMap) and every binding:              *)
(*   NoPanic, StackSafe, PcMonotone            (C06, C09)                  *)
(*   EvalRefinesDen                            (C01: optimizations off)    *)
(*   TotalAllEqual, NoReorderKeepsPlain, Agree (C02)                       *)
(*   EffectsExact                              (C03)                       *)
(*   Terminates                                (C06, liveness)             *)
(* Fam selects the tree set: "C01" includes the failing variable e.        *)
(***************************************************************************)
EXTENDS Machine, Json

CONSTANTS Fam, Big

Lf(k, v) == [k |-> k, v |-> v, kids |-> <<>>]
WithE == Fam = "C01"
BLeaves == {C(B(TRUE)), C(B(FALSE)), V("x"), V("y")} \cup (IF WithE THEN {V("e")} ELSE {})
ILeaves == {C(I(0)), C(I(2)), V("n")}
I1 == ILeaves \cup {O("/", <<a, b>>) : a \in ILeaves, b \in ILeaves} \cup {O("g", <<a>>) : a \in ILeaves}
B1core == {O(o, <<a, b>>) : o \in {"and", "or"}, a \in BLeaves, b \in BLeaves}
          \cup {O("not", <<a>>) : a \in BLeaves} \cup {O("f", <<a>>) : a \in BLeaves}
          \cup {O(">", <<a, b>>) : a \in I1, b \in {C(I(0))}}
B1 == BLeaves \cup B1core
      \cup {O("eq", <<a, b>>) : a \in BLeaves, b \in BLeaves}
      \cup (IF Big THEN {If(c, a, b) : c \in BLeaves, a \in BLeaves, b \in BLeaves} ELSE
                        {If(c, a, b) : c \in {V("x"), C(B(FALSE))}, a \in BLeaves, b \in {V("y"), C(B(TRUE))}})
\* depth 2: and/or over a depth-1 tree and a leaf (both orders), 3-ary, nested if
B2 == {O(o, <<a, b>>) : o \in {"and", "or"}, a \in B1, b \in BLeaves}
      \cup {O(o, <<b, a>>) : o \in {"and", "or"}, a \in (IF Big THEN B1 ELSE B1core), b \in (IF Big THEN BLeaves ELSE {V("x"), C(B(TRUE)), C(B(FALSE))})}
      \cup {O(o, <<a, b, c>>) : o \in {"and", "or"}, a \in B1core, b \in {V("x"), C(B(TRUE))}, c \in {V("y"), C(B(FALSE))}}
      \cup {If(c, a, b) : c \in B1core, a \in {V("x"), C(B(TRUE))}, b \in {V("y"), C(B(FALSE))}}
      \cup (IF Big THEN {If(c, a, b) : c \in {V("x")}, a \in B1core, b \in B1core} ELSE {})
\* depth 3 (Big only): the guard patterns and doubly nested and/or
B3 == {O(o, <<a, b>>) : o \in {"and", "or"}, a \in {t \in B2 : t.k = "o" /\ Len(t.kids) = 2 /\ t.kids[2] \in {V("x"), C(B(FALSE))}},
                                              b \in {V("y"), C(B(TRUE))}}
Trees == IF Big THEN B2 \cup B3 ELSE B2

MaskSet == IF Fam = "C01" THEN {AllOff} ELSE Masks
Envs == {[x |-> B(bx), y |-> B(by), n |-> I(nn)] : bx \in BOOLEAN, by \in BOOLEAN, nn \in {0, 2}}
Cfg == DefaultCfg

\* optimized trees of `tree` under mask m; Reordering = any permutation
OptSet(t, m) ==
  LET u == Optimize(t, [m EXCEPT !.ro = FALSE], Cfg) IN
  IF m.ro THEN ReorderAny(u) ELSE {u}

VARIABLES tree, mask, env, T, L, s
vars == <<tree, mask, env, T, L, s>>

Init == /\ tree \in Trees /\ mask = AllOff /\ env = [x |-> B(TRUE), y |-> B(TRUE), n |-> I(0)]
        /\ T = tree /\ L = <<>> /\ s = [st |-> "new"]
\* (initial states are enumerated single-threaded; the per-tree invariant Agree is
\* evaluated in the "cfg" state, which workers reach in parallel)
Open == s.st = "new" /\ s' = [st |-> "cfg"] /\ UNCHANGED <<tree, mask, env, T, L>>
Configure == /\ s.st = "cfg"
             /\ mask' \in MaskSet /\ env' \in Envs
             /\ T' \in OptSet(tree, mask')
             /\ L' = Layout(T')
             /\ s' = InitState(L', 0)
             /\ UNCHANGED tree
StepM == /\ s.st = "run"
         /\ s' = EvalNext(L, env, s, FALSE, TRUE)
         /\ UNCHANGED <<tree, mask, env, T, L>>
Next == Open \/ Configure \/ StepM
Spec == Init /\ [][Next]_vars /\ WF_vars(StepM)

\* ---- invariants ----
NoPanic == s.st \in {"new", "cfg", "run", "done"}
StackSafe == s.st \in {"new", "cfg"} \/ (s.top >= 0 /\ s.top <= L.max /\ s.hw <= L.max /\ L.max <= Alloc(L.max, Len(L.nodes)))
PcMonotone == [][(s.st = "run" /\ s'.st = "run") => s'.pc > s.pc]_vars
Terminates == <>(s.st # "run")

Done == s.st = "done"
D == Den(tree, env)
InDomain == ~OutOfDomain(D)
EvalRefinesDen == (Done /\ mask = AllOff /\ InDomain) => OutcomeEq(s.res, D)
TotalAllEqual == (Done /\ InDomain /\ Total(tree, env)) => OutcomeEq(s.res, D)
NoReorderKeepsPlain == (Done /\ InDomain /\ ~mask.ro /\ Ok(D)) => OutcomeEq(s.res, D)
EffectsExact == (Done /\ VarsOf(tree) \subseteq DOMAIN env) => Match(Unfast(T), env, s.eff, mask.fe)
\* the model layout's own Dump equals the optimized tree (Dump is the inverse of Layout)
DumpInverts == s.st \in {"new", "cfg"} \/ TreeEq(DumpOf(L), Unfast(T))

\* (i) of C02, evaluated once per tree in its "cfg" state: over all subsets,
\* reorderings and bindings, any two value results for the same binding agree
Agree ==
  s.st = "cfg" =>
    \A e \in Envs :
      LET key(r) == IF Ok(r) THEN <<r.t, ToString(r.v)>> ELSE <<"e", "e">>
          R == {key(Run(Layout(t2), e).res) : t2 \in UNION {OptSet(tree, m) : m \in MaskSet}}
      IN Cardinality(R \ {<<"e", "e">>}) <= 1

\* hide nothing: the machine state is the state.  (s.eff is needed by EffectsExact.)
\* every tree of the bounded set is printed once, for replay against the real code
EmitTrees == (s.st = "cfg") => PrintT("CASE " \o ToJson(tree))
=============================================================================
