----------------------------- MODULE JudgeEval -----------------------------
(***************************************************************************)
(* Trace validation for the "eval" family: observations of Compile + Eval  *)
(* recorded from the real code (harness/fam_eval.go) are consumed one line *)
(* per step and judged against the specification.                          *)
(*                                                                         *)
(*  - property level (C01, C02, C03, C10): the observed results, effect    *)
(*    logs, compile-time calls and Dump trees against Den / Total / Match /*)
(*    CFc of the ABSTRACT layer.  A mismatch is printed as a finding       *)
(*    <<"F", property, line id, variant, binding, signature>>.              *)
(*  - model level (drift): the exported real flat program against          *)
(*    Layout(Optimize(tree)), and the Eval machine run on the REAL program  *)
(*    against the observed result and effects:  <<"DRIFT", ...>>.          *)
(***************************************************************************)
EXTENDS Machine, Parser, Json, IOUtils

Trace == ndJsonDeserialize(IOEnv.OBS)

VARIABLES l, judged, nontriv, skipped, drift, found
vars == <<l, judged, nontriv, skipped, drift, found>>

Idx(s) == 1..Len(s)
Card(X) == Cardinality(X)

StdCfg(v) == [stateless |-> {"p"}, costs |-> <<>>]

\* ------------------------------------------------------------------ C01
\* every run of every (all-off) variant returns Den(tree, env), value or error
F01(r) ==
  {f \in {<<"C01", r.id, vi, ei, sig>> : vi \in Idx(r.vars), ei \in Idx(r.envs), sig \in {"res", "bool", "panic", "convenience"}} :
     LET v == r.vars[f[3]]
     IN v.cout = "ok" /\
        LET run == v.runs[f[4]]
            d == Den(r.tree, r.envs[f[4]])
        IN ~OutOfDomain(d) /\
           CASE f[5] = "panic" -> IsPanic(run.res) \/ IsPanic(run.bres)
             [] f[5] = "res" -> ~IsPanic(run.res) /\ ~OutcomeEq(run.res, d)
             \* the top-level eval.Eval(expr, vals): same value; a name missing from vals is a compile
             \* error there (unknown token), so only fully bound evaluations are compared
             [] f[5] = "convenience" -> run.conv.t \notin {"skip"} /\ VarsOf(r.tree) \subseteq DOMAIN r.envs[f[4]] /\
                                        (IsPanic(run.conv) \/ ~OutcomeEq(run.conv, d))
             [] f[5] = "bool" -> ~IsPanic(run.bres) /\ ~IsPanic(run.res) /\
                                 ~(IF Ok(d) /\ IsBool(d) THEN VEq(run.bres, d)
                                   ELSE IF Ok(d) THEN IsErr(run.bres)
                                   ELSE OutcomeEq(run.bres, d))}
N01(r) ==   \* judged / non-trivial (failing or short-circuiting) runs
  LET ok == {vi \in Idx(r.vars) : r.vars[vi].cout = "ok"}
      dom == {ei \in Idx(r.envs) : ~OutOfDomain(Den(r.tree, r.envs[ei]))}
  IN [j |-> Card(ok) * Card(dom),
      n |-> Card(ok) * Card({ei \in dom : ~Ok(Den(r.tree, r.envs[ei])) \/ ~Total(r.tree, r.envs[ei])}),
      s |-> Card(Idx(r.vars)) * Card(Idx(r.envs)) - Card(ok) * Card(dom)]

\* ------------------------------------------------------------------ C02
SameMask(a, b) == a.cf = b.cf /\ a.rn = b.rn /\ a.fe = b.fe /\ a.ro = b.ro
F02(r) ==
  LET okv == {vi \in Idx(r.vars) : r.vars[vi].cout = "ok"}
      res(vi, ei) == r.vars[vi].runs[ei].res
      d(ei) == Den(r.tree, r.envs[ei])
      \* C02 quantifies over bindings that bind every referenced variable
      dom == {ei \in Idx(r.envs) : VarsOf(r.tree) \subseteq DOMAIN r.envs[ei] /\ ~OutOfDomain(d(ei))}
      base(vi) == CHOOSE b \in Idx(r.vars) : r.vars[b].how = "opt" /\ r.vars[b].costs = "none" /\
                                              SameMask(r.vars[b].m, r.vars[vi].m)
  IN {f \in {<<"C02", r.id, vi, ei, "panic">> : vi \in okv, ei \in dom} : IsPanic(res(f[3], f[4]))}
     \cup
     \* (i) two configurations that both return a value return the same value
     {f \in {<<"C02", r.id, vi, ei, "agree">> : vi \in okv, ei \in dom} :
        LET a == res(f[3], f[4]) IN
        Ok(a) /\ \E wi \in okv : wi < f[3] /\ Ok(res(wi, f[4])) /\ ~VEq(res(wi, f[4]), a)}
     \cup
     \* (ii) when evaluating every reachable operand succeeds, all configurations return it
     {f \in {<<"C02", r.id, vi, ei, "total">> : vi \in okv, ei \in dom} :
        Total(r.tree, r.envs[f[4]]) /\ ~IsPanic(res(f[3], f[4])) /\ ~OutcomeEq(res(f[3], f[4]), d(f[4]))}
     \cup
     \* (iii) Reordering off: the unoptimized value whenever plain evaluation succeeds
     {f \in {<<"C02", r.id, vi, ei, "plain">> : vi \in okv, ei \in dom} :
        r.vars[f[3]].how # "dirx" /\ ~r.vars[f[3]].m.ro /\ Ok(d(f[4])) /\ ~IsPanic(res(f[3], f[4])) /\ ~OutcomeEq(res(f[3], f[4]), d(f[4]))}
     \cup
     \* (iv') directives in arbitrary order: what they mean is Parser!Directives (later pairs override
     \*       earlier ones, `optimize` sets all four, unset = enabled)
     {f \in {<<"C02", r.id, vi, 0, "directive-order">> : vi \in Idx(r.vars)} :
        LET v == r.vars[f[3]] IN
        v.how = "dirx" /\
        LET dd == Directives(Lex(v.dirchars, FALSE).toks)
            eff == [cf |-> dd.opts["constant_folding"] # "off", rn |-> dd.opts["reduce_nesting"] # "off",
                    fe |-> dd.opts["fast_evaluation"] # "off", ro |-> dd.opts["reordering"] # "off"]
            b == r.vars[CHOOSE k \in Idx(r.vars) : r.vars[k].how = "opt" /\ r.vars[k].costs = "none" /\ ~r.vars[k].undef /\
                                                   r.vars[k].ev = "" /\ SameMask(r.vars[k].m, eff)]
        IN ~dd.err /\ (v.cout # b.cout \/ (v.cout = "ok" /\ (v.dump # b.dump \/ v.table # b.table)))}
     \cup
     \* (iv) directive form == programmatic form: same decompiled program, same table
     {f \in {<<"C02", r.id, vi, 0, "directive">> : vi \in Idx(r.vars)} :
        LET v == r.vars[f[3]] IN
        v.how \in {"dir", "mix", "tail", "api"} /\ LET b == r.vars[base(f[3])] IN
                         \/ v.cout # b.cout
                         \/ (v.cout = "ok" /\ (v.dump # b.dump \/ v.table # b.table))}
     \cup
     \* a source that compiles under one option subset compiles under all
     \* (not near the capacity limits: there, rejecting what ReduceNesting made too wide is C09's "rejected or correct")
     {f \in {<<"C02", r.id, vi, 0, "compile">> : vi \in Idx(r.vars)} :
        NodeCount(r.tree) < 100 /\ r.vars[f[3]].cout # "ok" /\ \E wi \in Idx(r.vars) : r.vars[wi].cout = "ok"}
N02(r) ==
  LET okv == {vi \in Idx(r.vars) : r.vars[vi].cout = "ok"}
      dom == {ei \in Idx(r.envs) : VarsOf(r.tree) \subseteq DOMAIN r.envs[ei] /\ ~OutOfDomain(Den(r.tree, r.envs[ei]))}
      \* non-trivial: some variant's decompiled program differs from the source's
      changed == {vi \in okv : r.vars[vi].dump # r.vars[1].dump}
  IN [j |-> Card(okv) * Card(dom), n |-> Card(changed) * Card(dom),
      s |-> Card(Idx(r.vars)) * Card(Idx(r.envs)) - Card(okv) * Card(dom)]

\* ------------------------------------------------------------------ C03
AllBound(t, env) == VarsOf(t) \subseteq DOMAIN env
RECURSIVE HasIf(_)
HasIf(t) == t.k = "if" \/ \E i \in 1..Len(t.kids) : HasIf(t.kids[i])
F03(r) ==
  {f \in {<<"C03", r.id, vi, ei, "effects">> : vi \in Idx(r.vars), ei \in Idx(r.envs)} :
     LET v == r.vars[f[3]] IN
     v.cout = "ok" /\ v.dok /\ AllBound(r.tree, r.envs[f[4]]) /\
     ~Match(v.dtree, r.envs[f[4]], v.runs[f[4]].eff, v.m.fe)}
  \cup
  \* the same through the other evaluation entry points: EvalBool always; TryEval with every variable
  \* available on if-free expressions (out of an if-branch TryEval does not short-circuit: F-C04-1)
  {f \in {<<"C03", r.id, vi, ei, sig>> : vi \in Idx(r.vars), ei \in Idx(r.envs), sig \in {"evalbool-effects", "tryeval-effects"}} :
     LET v == r.vars[f[3]] IN
     v.cout = "ok" /\ v.dok /\ AllBound(r.tree, r.envs[f[4]]) /\
     LET run == v.runs[f[4]] IN
     CASE f[5] = "evalbool-effects" -> ~IsPanic(run.bres2) /\ ~Match(v.dtree, r.envs[f[4]], run.beff, v.m.fe)
       [] f[5] = "tryeval-effects" -> ~IsPanic(run.tres) /\ ~HasIf(v.dtree) /\ ~Match(v.dtree, r.envs[f[4]], run.teff, v.m.fe)}
N03(r) ==
  LET okv == {vi \in Idx(r.vars) : r.vars[vi].cout = "ok" /\ r.vars[vi].dok}
      dom == {ei \in Idx(r.envs) : AllBound(r.tree, r.envs[ei])}
      \* non-trivial: something observable was skipped (the log is shorter than the
      \* log of evaluating everything) and the log is not empty
  IN [j |-> Card(okv) * Card(dom),
      n |-> Card({<<vi, ei>> \in okv \X dom : Len(r.vars[vi].runs[ei].eff) > 0 /\ ~Total(r.tree, r.envs[ei])})
            + Card({<<vi, ei>> \in okv \X dom : Len(r.vars[vi].runs[ei].eff) > 0 /\
                      Len(r.vars[vi].runs[ei].eff) < Card(VarsOf(r.vars[vi].dtree))}),
      s |-> Card(Idx(r.vars)) * Card(Idx(r.envs)) - Card(okv) * Card(dom)]

\* ------------------------------------------------------------------ C10
RECURSIVE CountLeaf(_, _)
CountLeaf(t, name) ==
  LET n == Len(t.kids)
      RECURSIVE sum(_, _)
      sum(i, acc) == IF i > n THEN acc ELSE sum(i + 1, acc + CountLeaf(t.kids[i], name))
  IN sum(1, IF (t.k = "v" \/ IsOp(t)) /\ t.v = name THEN 1 ELSE 0)
Unfoldable == {"x", "y", "z", "n", "m", "s", "l", "e", "f", "g", "h"}   \* variables and undeclared operators
ToSetQ(q) == {q[i] : i \in 1..Len(q)}
CfgOf(v) == [stateless |-> ToSetQ(v.stateless), costs |-> <<>>]
F10(r) ==
  LET cfg == [stateless |-> {"p"}, costs |-> <<>>]
      folded == CFc(r.tree, cfg)
  IN \* (a) during Compile only built-in and stateless-declared operators run
     {f \in {<<"C10", r.id, vi, 0, "compile-call">> : vi \in Idx(r.vars)} :
        \E k \in Idx(r.vars[f[3]].ccalls) : r.vars[f[3]].ccalls[k] \notin CfgOf(r.vars[f[3]]).stateless}
     \cup
     \* (c) a failing constant sub-expression never makes Compile fail
     {f \in {<<"C10", r.id, vi, 0, "compile-fails">> : vi \in Idx(r.vars)} : r.vars[f[3]].cout # "ok"}
     \cup
     \* (d) variables and undeclared operators are folded away only where the
     \*     permitted folding (CFc) removes them
     {f \in {<<"C10", r.id, vi, 0, "overfold">> : vi \in Idx(r.vars)} :
        LET v == r.vars[f[3]] IN
        v.cout = "ok" /\ v.dok /\ \E nm \in Unfoldable \cup {"p"} : CountLeaf(v.dtree, nm) < CountLeaf(CFc(r.tree, CfgOf(v)), nm)}
     \cup
     \* (b) every evaluation performs the calls again: each repetition's log is a
     \*     log of evaluating the decompiled program, h counts on
     {f \in {<<"C10", r.id, vi, ei, "rep-effects">> : vi \in Idx(r.vars), ei \in Idx(r.envs)} :
        LET v == r.vars[f[3]] IN
        \* (trees with a deliberately ill-typed and/or operand are only judged for folding)
        ~r.illtyped /\ v.cout = "ok" /\ v.dok /\ AllBound(r.tree, r.envs[f[4]]) /\
        LET run == v.runs[f[4]] IN
        \/ ~Match(v.dtree, r.envs[f[4]], run.eff, v.m.fe)
        \/ \E k \in Idx(run.reps) : ~Match(v.dtree, r.envs[f[4]], run.reps[k].eff, v.m.fe)}
     \cup
     \* (c') the deferred failure surfaces from Eval exactly when plain evaluation reaches it
     {f \in {<<"C10", r.id, vi, ei, "deferred">> : vi \in Idx(r.vars), ei \in Idx(r.envs)} :
        LET v == r.vars[f[3]] IN
        ~r.illtyped /\ v.cout = "ok" /\ CountLeaf(r.tree, "h") = 0 /\ ~v.m.ro /\ AllBound(r.tree, r.envs[f[4]]) /\
        LET d == Den(r.tree, r.envs[f[4]]) IN
        ~OutOfDomain(d) /\ Ok(d) /\ ~OutcomeEq(v.runs[f[4]].res, d)}
N10(r) ==
  LET cfg == [stateless |-> {"p"}, costs |-> <<>>]
      changed == ~TreeEq(CFc(r.tree, cfg), r.tree)
  IN [j |-> Card(Idx(r.vars)) * Card(Idx(r.envs)),
      n |-> IF changed THEN Card(Idx(r.vars)) * Card(Idx(r.envs)) ELSE 0, s |-> 0]

\* ------------------------------------------------------------------ drift
\* the exported REAL flat program vs the model's layout of the model's optimized
\* tree, and the model machine run on the REAL program vs what was observed
Drifts(r) ==
  {f \in {<<"DRIFT", r.id, vi, what>> : vi \in Idx(r.vars), what \in {"opt-tree", "layout", "run", "effects"}} :
     LET v == r.vars[f[3]] IN
     \* (a constant of a foreign Go type is decompiled and exported as its printed text, which reads back as
     \*  another value: such trees are judged on outcomes only)
     ~r.foreign /\ v.cout = "ok" /\ v.hasprog /\ v.costs = "none" /\ v.ev = "" /\ v.how # "dirx" /\
     LET T == Optimize(r.tree, v.m, [stateless |-> {v.stateless[i] : i \in 1..Len(v.stateless)}, costs |-> <<>>])
         L == Layout(T)
     IN CASE f[4] = "opt-tree" -> v.dok /\ ~TreeEq(Unfast(T), v.dtree)
          [] f[4] = "layout" -> ~ProgEq(L, v.prog)
          [] f[4] = "run" -> \E ei \in Idx(r.envs) :
                               CountLeaf(r.tree, "h") = 0 /\
                               LET s == Run(v.prog, r.envs[ei]) IN
                               s.st # "done" \/ ~OutcomeEq(s.res, v.runs[ei].res) \/ s.hw > v.prog.max
          [] f[4] = "effects" -> \E ei \in Idx(r.envs) :
                               CountLeaf(r.tree, "h") = 0 /\
                               LET s == Run(v.prog, r.envs[ei]) IN
                               Len(s.eff) # Len(v.runs[ei].eff)}
\* the public DumpTable of the same program must be the table of the exported program (binds the
\* build-tagged export to a public API of the library, and the table to the layout model)
TableDrifts(r) ==
  {f \in {<<"DRIFT", r.id, vi, "table">> : vi \in Idx(r.vars)} :
     LET v == r.vars[f[3]] IN
     v.cout = "ok" /\ v.hasprog /\ (~v.tab.ok \/ ~TableEq(TableOf(v.prog), v.tab))}
NDrift(r) == Card({vi \in Idx(r.vars) : r.vars[vi].cout = "ok" /\ r.vars[vi].hasprog /\ r.vars[vi].how # "dirx" /\
                                         r.vars[vi].costs = "none" /\ r.vars[vi].ev = ""})

Findings(r) ==
  CASE r.for = "C01" -> F01(r)
    [] r.for = "C02" -> F02(r)
    [] r.for = "C03" -> F03(r)
    [] r.for = "C10" -> F10(r)
    [] OTHER -> {}
Counts(r) ==
  CASE r.for = "C01" -> N01(r)
    [] r.for = "C02" -> N02(r)
    [] r.for = "C03" -> N03(r)
    [] r.for = "C10" -> N10(r)
    [] OTHER -> [j |-> 0, n |-> 0, s |-> 0]

Init == l = 1 /\ judged = 0 /\ nontriv = 0 /\ skipped = 0 /\ drift = 0 /\ found = 0
Next ==
  /\ l <= Len(Trace)
  /\ l' = l + 1
  /\ LET r == Trace[l]
         F == Findings(r)
         D == Drifts(r) \cup TableDrifts(r)
         c == Counts(r)
     IN /\ \A f \in F : PrintT(<<"F", f[1], f[2], f[3], f[4], f[5]>>)
        /\ \A f \in D : PrintT(<<"DRIFT", f[2], f[3], f[4]>>)
        /\ judged' = judged + c.j
        /\ nontriv' = nontriv + c.n
        /\ skipped' = skipped + c.s
        /\ drift' = drift + NDrift(r)
        /\ found' = found + Card(F)
Spec == Init /\ [][Next]_vars

Done == l = Len(Trace) + 1 => PrintT(<<"SUMMARY", l - 1, judged, nontriv, skipped, drift, found>>)
Accepted == TLCGet("stats").diameter - 1 = Len(Trace)
=============================================================================
