------------------------------ MODULE Encodings ------------------------------
(***************************************************************************)
(* Property C19: the version and date encodings, with exact int64 values   *)
(* (Int64.tla).  A version is a sequence of components; a component is a   *)
(* natural number or -1 for "not a number" (empty, letters).               *)
(***************************************************************************)
EXTENDS Int64, Sequences, Integers

Base64 == FromNat(10000)
\* valid: validLen in 1..4, every component READ (the first validLen ones) numeric and < 10000
VersionValid(comps, n) ==
  n \in 1..4 /\ \A i \in 1..Len(comps) : i <= n => (comps[i] >= 0 /\ comps[i] < 10000)
VersionEnc64(comps, n) ==
  LET RECURSIVE go(_, _)
      go(i, acc) == IF i > n THEN acc
                    ELSE go(i + 1, Add64(Mul64(acc, Base64), FromNat(IF i <= Len(comps) THEN comps[i] ELSE 0)))
  IN go(1, Zero64)
Pad(comps, n) == [i \in 1..n |-> IF i <= Len(comps) THEN comps[i] ELSE 0]
\* component-wise comparison with missing components read as 0: -1 less, 0 equal, 1 greater
LexCmp(p, q) ==
  LET RECURSIVE go(_)
      go(i) == IF i > Len(p) THEN 0 ELSE IF p[i] < q[i] THEN -1 ELSE IF p[i] > q[i] THEN 1 ELSE go(i + 1)
  IN go(1)
Cmp64(a, b) == IF Lt64(a, b) THEN -1 ELSE IF a = b THEN 0 ELSE 1

\* days since 1970-01-01 of a proleptic Gregorian civil date (year >= 1)
IsLeap(y) == (y % 4 = 0 /\ y % 100 # 0) \/ y % 400 = 0
DaysIn(y, m) == CASE m \in {1, 3, 5, 7, 8, 10, 12} -> 31 [] m \in {4, 6, 9, 11} -> 30 [] OTHER -> IF IsLeap(y) THEN 29 ELSE 28
DateValid(y, m, d) == y \in 1..9999 /\ m \in 1..12 /\ d >= 1 /\ d <= DaysIn(y, m)
DaysFromCivil(y0, m, d) ==
  LET y == IF m <= 2 THEN y0 - 1 ELSE y0
      era == y \div 400
      yoe == y - era * 400
      mp == IF m > 2 THEN m - 3 ELSE m + 9
      doy == (153 * mp + 2) \div 5 + d - 1
      doe == yoe * 365 + yoe \div 4 - yoe \div 100 + doy
  IN era * 146097 + doe - 719468
\* Unix seconds as int64
UnixSecs(y, m, d, hh, mi, ss) ==
  Add64(Mul64(FromInt(DaysFromCivil(y, m, d)), FromNat(86400)), FromNat(hh * 3600 + mi * 60 + ss))
\* the same wall clock read in a zone `off` seconds east of UTC (layouts with a zone offset)
UnixSecsAt(y, m, d, hh, mi, ss, off) == Sub64(UnixSecs(y, m, d, hh, mi, ss), FromInt(off))
=============================================================================
