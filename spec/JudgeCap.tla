------------------------------- MODULE JudgeCap -------------------------------
(***************************************************************************)
(* Trace validation for property C09: observations of Compile / Eval /     *)
(* TryEval on the capacity families with the REAL limits (127 operands,    *)
(* 32767 nodes, halved by event doubling; stack classes 8 / 16 / size),    *)
(* judged with the closed forms of Capacity.tla (which MCCap proves        *)
(* against the model on small parameters).                                 *)
(***************************************************************************)
EXTENDS Capacity, Json, IOUtils

Trace == ndJsonDeserialize(IOEnv.OBS)
VARIABLES l, judged, nontriv, skipped, drift, found
vars == <<l, judged, nontriv, skipped, drift, found>>
Idx(q) == 1..Len(q)
Card(X) == Cardinality(X)

Expected(r) == Outcome(r.desc, r.m, r.events, RealLimits, FALSE)
AsBuiltOutcome(r) == Outcome(r.desc, r.m, r.events, RealLimits, TRUE)

F(r) ==
  LET want == Expected(r)
      mk(sig) == {<<"C09", r.id, 0, 0, sig>>}
  IN (IF r.cout = "panic" /\ AsBuiltOutcome(r) # "panic" THEN mk("compile-panic") ELSE {})
     \cup (IF r.cout = "nil" THEN mk("compile-nil") ELSE {})
     \* beyond a limit: rejected with an error
     \cup (IF want = "err" /\ r.cout = "ok" THEN mk("limit-not-enforced") ELSE {})
     \* up to the limits: compiles ...
     \cup (IF want = "ok" /\ r.cout = "err" THEN mk("rejected-below-limit") ELSE {})
     \* ... and evaluates to the reference result, Eval and TryEval
     \cup (IF r.cout = "ok" /\ \E k \in Idx(r.runs) :
                                  \/ ~OutcomeEq(r.runs[k].res, ValueOf(r.desc, r.envs[r.runs[k].e]))
                                  \/ ~OutcomeEq(r.runs[k].try, ValueOf(r.desc, r.envs[r.runs[k].e]))
           THEN mk("wrong-result") ELSE {})
     \* the operand stack allocated is large enough: the observed high-water mark (LOOP
     \* snapshots, event mode) never exceeds maxStackSize, which the allocation class covers
     \cup (IF r.cout = "ok" /\ \E k \in Idx(r.runs) : r.runs[k].hw > r.max THEN mk("stack-bound") ELSE {})
     \cup (IF r.cout = "ok" /\ Alloc(r.max, r.size) < r.max THEN mk("alloc-class") ELSE {})
\* kind "tree": arbitrary deep shapes, judged against Den and the LOOP high-water mark
FTree(r) ==
  LET mk(sig) == {<<"C09", r.id, 0, 0, sig>>} IN
  (IF r.cout # "ok" THEN mk("small-program-rejected-or-panics") ELSE {})
  \cup (IF r.cout = "ok" /\ \E k \in Idx(r.runs) :
               LET d == Den(r.tree, r.envs[r.runs[k].e]) IN
               \* (option subsets incl. Reordering: the value is fixed only when every operand succeeds, C02)
               \/ IsPanic(r.runs[k].res) \/ IsPanic(r.runs[k].try)
               \/ (~IsWide(d) /\ ~OutOfDomain(d) /\ Total(r.tree, r.envs[r.runs[k].e]) /\
                   (~OutcomeEq(r.runs[k].res, d) \/ ~OutcomeEq(r.runs[k].try, d)))
        THEN mk("wrong-result") ELSE {})
  \cup (IF r.cout = "ok" /\ \E k \in Idx(r.runs) : r.runs[k].hw > r.max THEN mk("stack-bound") ELSE {})
  \cup (IF r.cout = "ok" /\ Alloc(r.max, r.size) < r.max THEN mk("alloc-class") ELSE {})
K(r) == IF r.kind = "tree" THEN {} ELSE IF r.cout = "panic" /\ AsBuiltOutcome(r) = "panic" THEN {<<"C09", r.id, 0, 0, "F-C09-1">>} ELSE {}

\* drift: node count of the real program vs the closed form (x2 minus fast leaves in event mode)
Drifts(r) ==
  IF r.cout = "ok" /\ ~r.events /\ r.size # NodesOf(r.desc, r.m) THEN {<<"DRIFT", r.id, 0, "node-count">>} ELSE {}

NearLimit(r) ==
  LET k == KidsOf(r.desc, r.m)  n == NodesOf(r.desc, r.m) IN
  (k >= 120 /\ k <= 135) \/ (n >= 16370 /\ n <= 16400) \/ (n >= 32750 /\ n <= 32780) \/
  (r.cout = "ok" /\ r.max >= 7 /\ r.max <= 18)

Init == l = 1 /\ judged = 0 /\ nontriv = 0 /\ skipped = 0 /\ drift = 0 /\ found = 0
Next ==
  /\ l <= Len(Trace)
  /\ l' = l + 1
  /\ LET r == Trace[l]
         Fs == IF r.kind = "tree" THEN FTree(r) ELSE F(r)
         Ks == K(r)
         D == IF r.kind = "tree" THEN {} ELSE Drifts(r)
     IN /\ \A f \in Fs : PrintT(<<"F", f[1], f[2], f[3], f[4], f[5]>>)
        /\ \A f \in Ks : PrintT(<<"K", f[1], f[2], f[3], f[4], f[5]>>)
        /\ \A f \in D : PrintT(<<"DRIFT", f[2], f[3], f[4]>>)
        /\ judged' = judged + 1
        /\ nontriv' = nontriv + (IF r.kind = "tree" THEN (IF r.cout = "ok" /\ r.max >= 7 THEN 1 ELSE 0) ELSE IF NearLimit(r) THEN 1 ELSE 0)
        /\ skipped' = skipped
        /\ drift' = drift + (IF r.kind # "tree" /\ r.cout = "ok" /\ ~r.events THEN 1 ELSE 0)
        /\ found' = found + Card(Fs)
Spec == Init /\ [][Next]_vars
Done == l = Len(Trace) + 1 => PrintT(<<"SUMMARY", l - 1, judged, nontriv, skipped, drift, found>>)
Accepted == TLCGet("stats").diameter - 1 = Len(Trace)
=============================================================================
