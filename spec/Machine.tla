------------------------------ MODULE Machine ------------------------------
(***************************************************************************)
(* The evaluators of engine.go as step functions on an explicit state      *)
(* record: Expr.Eval (engine.go:103-210) and Expr.TryEval                  *)
(* (engine.go:212-356).  One call of Step / TryStep is one iteration of    *)
(* the code's `for i := ...` loop, including the inner short-circuit jump  *)
(* loop (Eval) or the parent-climbing loop (TryEval).                      *)
(*                                                                         *)
(* State s: [pc, os, top, st, res, hw, eff, out, buf, hc]                  *)
(*   pc   1-based program counter          os   operand stack (fixed size) *)
(*   top  number of live slots (= osTop+1) hw   high-water mark of top     *)
(*   st   "run" | "done" | "panic:<what>"  res  result / error when done   *)
(*   eff  effect log: fetches and custom-operator calls (Semantics.tla)    *)
(*   out  emitted events (only in event mode)                              *)
(*   buf  the two-slot argument buffer `param2`                            *)
(*   hc   number of calls of the stateful operator h so far                *)
(* Every index and every stack access is bounds-checked: an out-of-range   *)
(* access is the state "panic:...", so NoPanic is a checkable invariant.   *)
(***************************************************************************)
EXTENDS Layout

Small == 8
Medium == 16
Alloc(mx, size) == IF mx <= Small THEN Small ELSE IF mx <= Medium THEN Medium ELSE size

InitState(L, hc0) ==
  [pc |-> 1, os |-> [i \in 1..Alloc(L.max, Len(L.nodes)) |-> NIL], top |-> 0,
   st |-> "run", res |-> NIL, hw |-> 0, eff |-> <<>>, out |-> <<>>, buf |-> <<NIL, NIL>>, hc |-> hc0]

Get(n) == [k |-> "get", n |-> n]
Call(n, ps, r) == [k |-> "call", n |-> n, ps |-> ps, r |-> r]
OpEv(n, ps, r, fast, alias) == [k |-> "op", n |-> n, ps |-> ps, r |-> r, fast |-> fast, alias |-> alias]
LoopEv(pos, stack) == [k |-> "loop", pos |-> pos, stack |-> stack]

\* As built, the OP_EXEC event of a two-operand application carries the very
\* slice the evaluator passed -- the reused param2 buffer (deviation F-C12-1).
\* CopiedParams = TRUE is the intended design.
AliasedWhen(cc, copied) == ~copied /\ cc = 2

Fail(s, r) == [s EXCEPT !.st = "done", !.res = r]

\* one operator application: returns the state with effects/events recorded and the result in .res
Invoke(L, s, nd, ps, ev, copied) ==
  LET isH == nd.val = "h"
      hc2 == IF isH THEN s.hc + 1 ELSE s.hc
      r == IF isH THEN I(hc2) ELSE ApplyAny(nd.val, ps)
      eff2 == IF nd.val \in CustomNames THEN Append(s.eff, Call(nd.val, ps, r)) ELSE s.eff
      out2 == IF ev THEN Append(s.out, OpEv(nd.val, ps, r, nd.ty = "f", AliasedWhen(Len(ps), copied))) ELSE s.out
  IN [s EXCEPT !.eff = eff2, !.out = out2, !.hc = hc2, !.res = r,
               !.buf = IF Len(ps) = 2 THEN ps ELSE s.buf]

\* after computing `res` at node index i0: the short-circuit jump loop, then push
JumpPush(L, s, i0, res) ==
  LET RECURSIVE jump(_, _, _)
      jump(i, top, fuel) ==
        LET cur == L.nodes[i] IN
        IF fuel = 0 THEN [ret |-> FALSE, i |-> 0, top |-> top]
        ELSE IF IsBool(res) /\ ((~res.v /\ cur.scf) \/ (res.v /\ cur.sct))
        THEN IF cur.sc = 0 THEN [ret |-> TRUE, i |-> i, top |-> top]
             ELSE IF cur.sc > Len(L.nodes) THEN [ret |-> FALSE, i |-> 0, top |-> top]
             ELSE jump(cur.sc, L.nodes[cur.sc].top - 1, fuel - 1)
        ELSE [ret |-> FALSE, i |-> i, top |-> top]
      j == jump(i0, s.top, Len(L.nodes) + 1)
  IN IF j.ret THEN [s EXCEPT !.st = "done", !.res = res]
     ELSE IF j.i = 0 THEN [s EXCEPT !.st = "panic:jump"]
     ELSE IF j.top + 1 > Len(s.os) \/ j.top < 0 THEN [s EXCEPT !.st = "panic:stack"]
     ELSE [s EXCEPT !.os[j.top + 1] = res, !.top = j.top + 1, !.pc = j.i + 1,
                    !.hw = IF j.top + 1 > s.hw THEN j.top + 1 ELSE s.hw]

FetchE(s, env, name) ==   \* fetch with effect
  [s EXCEPT !.eff = Append(s.eff, Get(name)), !.res = Lookup(env, name)]

Step(L, env, s, ev, copied) ==
  LET i == s.pc
      cur == L.nodes[i]
      n == Len(L.nodes)
  IN CASE cur.ty = "c" -> JumpPush(L, s, i, cur.val)
       [] cur.ty = "v" -> LET s1 == FetchE(s, env, cur.val) IN
                          IF ~Ok(s1.res) THEN Fail(s1, s1.res) ELSE JumpPush(L, s1, i, s1.res)
       [] cur.ty = "f" ->
            IF i + 2 > n THEN [s EXCEPT !.st = "panic:index"]
            \* (a program exported from the real code may be malformed: only leaves can be inlined)
            ELSE IF L.nodes[i + 1].ty \notin {"c", "v"} \/ L.nodes[i + 2].ty \notin {"c", "v"} THEN [s EXCEPT !.st = "panic:shape"]
            ELSE
            LET c1 == L.nodes[i + 1]
                c2 == L.nodes[i + 2]
                s1 == IF c1.ty = "v" THEN FetchE(s, env, c1.val) ELSE [s EXCEPT !.res = c1.val] IN
            IF ~Ok(s1.res) THEN Fail(s1, s1.res)
            ELSE LET a == s1.res
                     s2 == IF c2.ty = "v" THEN FetchE(s1, env, c2.val) ELSE [s1 EXCEPT !.res = c2.val] IN
                 IF ~Ok(s2.res) THEN Fail(s2, s2.res)
                 ELSE LET s3 == Invoke(L, s2, cur, <<a, s2.res>>, ev, copied) IN
                      IF ~Ok(s3.res) THEN Fail(s3, s3.res)
                      ELSE \* the jump test uses the fast operator node; without a jump the next pc is i+3
                           LET s4 == JumpPush(L, s3, i, s3.res) IN
                           IF s4.st = "run" /\ s4.pc = i + 1 THEN [s4 EXCEPT !.pc = i + 3] ELSE s4
       [] cur.ty = "o" ->
            LET top == s.top - cur.cc IN
            IF top < 0 THEN [s EXCEPT !.st = "panic:underflow"]
            ELSE LET ps == [k \in 1..cur.cc |-> s.os[top + k]]
                     s1 == Invoke(L, [s EXCEPT !.top = top], cur, ps, ev, copied) IN
                 IF ~Ok(s1.res) THEN Fail(s1, s1.res) ELSE JumpPush(L, s1, i, s1.res)
       [] cur.ty = "if" ->
            IF s.top < 1 THEN [s EXCEPT !.st = "panic:underflow"]
            ELSE LET c == s.os[s.top] IN
                 IF ~IsBool(c) THEN Fail(s, E("cond"))
                 ELSE IF c.v THEN [s EXCEPT !.top = s.top - 1, !.pc = i + 1]
                 ELSE [s EXCEPT !.top = cur.top, !.pc = cur.sc + 1]
       [] cur.ty = "fi" ->
            IF s.top < 1 THEN [s EXCEPT !.st = "panic:underflow"]
            ELSE [s EXCEPT !.top = cur.top, !.pc = cur.sc + 1]
       [] cur.ty = "ev" ->
            [s EXCEPT !.pc = i + 1, !.out = Append(s.out, LoopEv(cur.val, SubSeq(s.os, 1, s.top)))]
       [] OTHER -> [s EXCEPT !.st = "panic:type"]

Finish(s) == IF s.top < 1 THEN [s EXCEPT !.st = "panic:empty"] ELSE [s EXCEPT !.st = "done", !.res = s.os[1]]

\* one transition of the Eval machine (the loop condition included)
EvalNext(L, env, s, ev, copied) ==
  IF s.pc > Len(L.nodes) THEN Finish(s)
  ELSE LET s2 == Step(L, env, s, ev, copied) IN
       IF s2.st = "run" /\ s2.pc <= s.pc THEN [s2 EXCEPT !.st = "panic:pc"] ELSE s2

RECURSIVE RunFrom(_, _, _, _, _)
RunFrom(L, env, s, ev, copied) ==
  IF s.st # "run" THEN s ELSE RunFrom(L, env, EvalNext(L, env, s, ev, copied), ev, copied)

Run(L, env) == RunFrom(L, env, InitState(L, 0), FALSE, TRUE)
RunEv(L, env, copied) == RunFrom(L, env, InitState(L, 0), TRUE, copied)

(***************************************************************************)
(* TryEval.  Leaves go through the fetch proxy (DNE unless the variable is *)
(* in `av`), operators through the operator proxy (absorbing value first,  *)
(* then DNE, then the real call); after each result the climb loop.        *)
(***************************************************************************)
FetchProxy(s, nd, env, av) ==
  IF nd.val \in av THEN FetchE(s, env, nd.val) ELSE [s EXCEPT !.res = DNE]
LeafProxy(s, nd, env, av) == IF nd.ty = "c" THEN [s EXCEPT !.res = nd.val] ELSE FetchProxy(s, nd, env, av)
OpProxy(L, s, nd, ps, ev, copied) ==
  IF NodeIsAnd(nd) /\ Has(ps, B(FALSE)) THEN [s EXCEPT !.res = B(FALSE)]
  ELSE IF NodeIsOr(nd) /\ Has(ps, B(TRUE)) THEN [s EXCEPT !.res = B(TRUE)]
  ELSE IF Has(ps, DNE) THEN [s EXCEPT !.res = DNE]
  ELSE Invoke(L, s, nd, ps, ev, copied)

Matches(res, nd) ==
  IF nd.pand THEN VEq(res, B(FALSE))
  ELSE IF nd.por THEN VEq(res, B(TRUE))
  ELSE IsDNE(res)

\* climb from node index i0 (whose node is cur0) with value res, then push
TryClimbPush(L, s, i0, cur0, res) ==
  LET RECURSIVE climb(_, _, _, _)
      climb(i, cur, top, fuel) ==
        IF fuel = 0 THEN [ret |-> FALSE, i |-> 0, top |-> top]
        ELSE IF Matches(res, cur)
        THEN LET p == L.nodes[i].par IN
             IF p = 0 THEN [ret |-> TRUE, i |-> i, top |-> top]
             ELSE LET pn == L.nodes[p] IN
                  IF pn.ty \in {"if", "fi"} /\ ~Matches(res, pn)
                  THEN LET j == L.nodes[pn.sc].sc IN [ret |-> FALSE, i |-> j, top |-> L.nodes[j].top - 1]
                  ELSE climb(p, pn, pn.top - 1, fuel - 1)
        ELSE [ret |-> FALSE, i |-> i, top |-> top]
      j == climb(i0, cur0, s.top, Len(L.nodes) + 1)
  IN IF j.ret THEN [s EXCEPT !.st = "done", !.res = res]
     ELSE IF j.i = 0 THEN [s EXCEPT !.st = "panic:jump"]
     ELSE IF j.top + 1 > Len(s.os) \/ j.top < 0 THEN [s EXCEPT !.st = "panic:stack"]
     ELSE [s EXCEPT !.os[j.top + 1] = res, !.top = j.top + 1, !.pc = j.i + 1,
                    !.hw = IF j.top + 1 > s.hw THEN j.top + 1 ELSE s.hw]

TryStep(L, env, av, s, ev, copied) ==
  LET i == s.pc
      cur == L.nodes[i]
      n == Len(L.nodes)
  IN CASE cur.ty = "c" -> TryClimbPush(L, s, i, cur, cur.val)
       [] cur.ty = "v" -> LET s1 == FetchProxy(s, cur, env, av) IN
                          IF ~Ok(s1.res) THEN Fail(s1, s1.res) ELSE TryClimbPush(L, s1, i, cur, s1.res)
       [] cur.ty = "f" ->
            IF i + 2 > n THEN [s EXCEPT !.st = "panic:index"]
            ELSE IF L.nodes[i + 1].ty \notin {"c", "v"} \/ L.nodes[i + 2].ty \notin {"c", "v"} THEN [s EXCEPT !.st = "panic:shape"]
            ELSE
            LET s1 == LeafProxy(s, L.nodes[i + 1], env, av) IN
            IF ~Ok(s1.res) THEN Fail(s1, s1.res)
            ELSE LET a == s1.res
                     s2 == LeafProxy(s1, L.nodes[i + 2], env, av) IN
                 IF ~Ok(s2.res) THEN Fail(s2, s2.res)
                 ELSE LET s3 == OpProxy(L, s2, cur, <<a, s2.res>>, ev, copied) IN
                      IF ~Ok(s3.res) THEN Fail(s3, s3.res)
                      ELSE \* the code climbs from index i+2 with curt = the fast operator node
                           TryClimbPush(L, s3, i + 2, cur, s3.res)
       [] cur.ty = "o" ->
            LET top == s.top - cur.cc IN
            IF top < 0 THEN [s EXCEPT !.st = "panic:underflow"]
            ELSE LET ps == [k \in 1..cur.cc |-> s.os[top + k]]
                     s1 == OpProxy(L, [s EXCEPT !.top = top], cur, ps, ev, copied) IN
                 IF ~Ok(s1.res) THEN Fail(s1, s1.res) ELSE TryClimbPush(L, s1, i, cur, s1.res)
       [] cur.ty = "if" ->
            IF s.top < 1 THEN [s EXCEPT !.st = "panic:underflow"]
            ELSE LET c == s.os[s.top] IN
                 IF ~IsBool(c) THEN Fail(s, E("cond"))
                 ELSE IF c.v THEN [s EXCEPT !.top = s.top - 1, !.pc = i + 1]
                 ELSE [s EXCEPT !.top = cur.top, !.pc = cur.sc + 1]
       [] cur.ty = "fi" ->
            IF s.top < 1 THEN [s EXCEPT !.st = "panic:underflow"]
            ELSE [s EXCEPT !.top = cur.top, !.pc = cur.sc + 1]
       [] cur.ty = "ev" ->
            [s EXCEPT !.pc = i + 1, !.out = Append(s.out, LoopEv(cur.val, SubSeq(s.os, 1, s.top)))]
       [] OTHER -> [s EXCEPT !.st = "panic:type"]

TryNext(L, env, av, s, ev, copied) ==
  IF s.pc > Len(L.nodes) THEN Finish(s)
  ELSE LET s2 == TryStep(L, env, av, s, ev, copied) IN
       IF s2.st = "run" /\ s2.pc <= s.pc THEN [s2 EXCEPT !.st = "panic:pc"] ELSE s2

RECURSIVE TryRunFrom(_, _, _, _, _, _)
TryRunFrom(L, env, av, s, ev, copied) ==
  IF s.st # "run" THEN s ELSE TryRunFrom(L, env, av, TryNext(L, env, av, s, ev, copied), ev, copied)

TryRun(L, env, av) == TryRunFrom(L, env, av, InitState(L, 0), FALSE, TRUE)
TryRunEv(L, env, av, copied) == TryRunFrom(L, env, av, InitState(L, 0), TRUE, copied)

(***************************************************************************)
(* What a consumer sees.  A consumer that copies an event when it receives *)
(* it sees the parameters as they were at call time; one that retains the  *)
(* event and looks after the evaluation has moved on sees, for an aliased  *)
(* event, whatever the shared buffer holds by then.                        *)
(***************************************************************************)
OpEvents(out) == SelectSeq(out, LAMBDA e : e.k = "op")
LoopEvents(out) == SelectSeq(out, LAMBDA e : e.k = "loop")
ReadLater(out, finalBuf) ==
  [i \in 1..Len(out) |-> IF out[i].k = "op" /\ out[i].alias THEN [out[i] EXCEPT !.ps = finalBuf] ELSE out[i]]
=============================================================================
