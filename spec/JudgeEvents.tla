----------------------------- MODULE JudgeEvents -----------------------------
(***************************************************************************)
(* Trace validation for property C12: the same source compiled with events *)
(* off and on (ReportEvent / Debug), evaluated under each binding; the     *)
(* event stream as seen by three consumer disciplines.                     *)
(***************************************************************************)
EXTENDS Machine, Json, IOUtils

Trace == ndJsonDeserialize(IOEnv.OBS)
VARIABLES l, judged, nontriv, skipped, drift, found
vars == <<l, judged, nontriv, skipped, drift, found>>
Idx(q) == 1..Len(q)
Card(X) == Cardinality(X)
ToSet(q) == {q[i] : i \in 1..Len(q)}

Ops(evs) == SelectSeq(evs, LAMBDA e : e.k = "op")
Loops(evs) == SelectSeq(evs, LAMBDA e : e.k = "loop")
CustomOps(evs) == SelectSeq(evs, LAMBDA e : e.k = "op" /\ e.n \in CustomNames)
Calls(eff) == SelectSeq(eff, LAMBDA e : e.k = "call")
PlainOps(evs) == SelectSeq(evs, LAMBDA e : e.k = "op" /\ e.n \notin AndNames \cup OrNames)
ParamsEq(a, b) == Len(a) = Len(b) /\ \A i \in 1..Len(a) : VEq(a[i], b[i])
RECURSIVE Mentions(_, _)
Mentions(t, nm) == (t.k # "c" /\ t.v = nm) \/ \E i \in 1..Len(t.kids) : Mentions(t.kids[i], nm)

\* A LOOP snapshot is the operand stack: the event announcing a (non-fast) operator node shows that
\* operator's arguments on top, and the OP_EXEC event that follows carries exactly those.
LoopStackConsistent(evs) ==
  \A j \in 2..Len(evs) :
     (evs[j].k = "op" /\ ~evs[j].fast /\ evs[j - 1].k = "loop") =>
        LET st == evs[j - 1].stack  ps == evs[j].ps IN
        Len(st) >= Len(ps) /\ \A i \in 1..Len(ps) : VEq(st[Len(st) - Len(ps) + i], ps[i])
Discs == {"sync", "buffered", "retained"}
D(run, d) == CASE d = "sync" -> run.sync [] d = "buffered" -> run.buffered [] d = "retained" -> run.retained

\* findings of one run under one consumer discipline
FRun(r, ri, d) ==
  LET run == r.runs[ri]
      o == D(run, d)
      env == r.envs[run.e]
      ops == Ops(o.evs)
      cus == CustomOps(o.evs)
      calls == Calls(o.eff)
      plain == PlainOps(o.evs)
      want == IF r.on.dok /\ ~Mentions(r.tree, "h") /\ ~Mentions(r.tree, "boom") THEN AppSeq(r.on.dtree, env) ELSE <<>>
      \* a panic of a registered operator is the operator's: the engine must treat it alike with and without events
      samePanic == IsPanic(o.res) /\ IsPanic(run.off) /\ o.res.msg = run.off.msg
      loops == Loops(o.evs)
      mk(sig) == {<<"C12", r.id, ri, d, sig>>}
  IN (IF IsPanic(o.res) /\ ~samePanic THEN mk("panic") ELSE {})
     \cup
     \* enabling events never changes the result
     (IF ~IsPanic(o.res) /\ (IsPanic(run.off) \/ ~OutcomeEq(o.res, run.off)) THEN mk("result-changed") ELSE {})
     \cup
     \* OP_EXEC events of registered operators = the calls the instrumented operators saw
     \* in this very evaluation: name, arguments as at call time, result or error
     (IF ~IsPanic(o.res) /\ (Len(cus) # Len(calls) \/
         \E i \in 1..(IF Len(cus) < Len(calls) THEN Len(cus) ELSE Len(calls)) :
            cus[i].n # calls[i].n \/ ~ParamsEq(cus[i].ps, calls[i].ps) \/ ~OutcomeEq(cus[i].r, calls[i].r))
      THEN mk("custom-ops") ELSE {})
     \cup
     \* every built-in OP_EXEC event is self-consistent: result = operator(arguments)
     (IF \E i \in Idx(ops) : ops[i].n \notin CustomNames /\ ~OutcomeEq(ApplyAny(ops[i].n, ops[i].ps), ops[i].r)
      THEN mk("op-inconsistent") ELSE {})
     \cup
     \* the applications (other than and/or's own) are exactly those of left-to-right
     \* short-circuit evaluation of the decompiled program, in order
     (IF r.on.dok /\ ~Mentions(r.tree, "h") /\ ~Mentions(r.tree, "boom") /\ VarsOf(r.tree) \subseteq DOMAIN env /\
         (Len(plain) # Len(want) \/
          \E i \in 1..(IF Len(plain) < Len(want) THEN Len(plain) ELSE Len(want)) :
             plain[i].n # want[i].n \/ ~ParamsEq(plain[i].ps, want[i].ps) \/ ~OutcomeEq(plain[i].r, want[i].r))
      THEN mk("op-sequence") ELSE {})
     \cup
     \* LOOP positions strictly increase
     (IF \E i \in 1..(Len(loops) - 1) : loops[i + 1].pos <= loops[i].pos THEN mk("loop-order") ELSE {})
     \cup (IF d = "sync" /\ ~LoopStackConsistent(o.evs) THEN mk("loop-stack-is-not-the-operand-stack") ELSE {})

FLine(r) ==
  IF r.off.cout # "ok" \/ r.on.cout # "ok"
  THEN (IF r.off.cout # r.on.cout THEN {<<"C12", r.id, 0, "compile", "compile-differs">>} ELSE {})
  ELSE
  (IF r.off.dump # r.on.dump THEN {<<"C12", r.id, 0, "dump", "dump-changed">>} ELSE {})
  \cup UNION {FRun(r, ri, d) : ri \in Idx(r.runs), d \in Discs}
  \cup
  \* LOOP snapshots are private: a retained event shows the same stack as the copy taken at receive time
  UNION {LET a == Loops(r.runs[ri].sync.evs)  b == Loops(r.runs[ri].retained.evs) IN
         IF Len(a) # Len(b) \/ \E i \in Idx(a) : a[i].pos # b[i].pos \/ ~ParamsEq(a[i].stack, b[i].stack)
         THEN {<<"C12", r.id, ri, "retained", "loop-snapshot">>} ELSE {} : ri \in Idx(r.runs)}
  \cup
  \* ... and the events of one evaluation stay intact while the same expression is evaluated again
  UNION {LET a == r.runs[ri].sync.evs  b == r.runs[ri].across.evs IN
         IF Len(a) # Len(b) \/ \E i \in Idx(a) : a[i].k # b[i].k \/
               (a[i].k = "op" /\ (a[i].n # b[i].n \/ ~ParamsEq(a[i].ps, b[i].ps) \/ ~OutcomeEq(a[i].r, b[i].r))) \/
               (a[i].k = "loop" /\ (a[i].pos # b[i].pos \/ ~ParamsEq(a[i].stack, b[i].stack)))
         THEN {<<"C12", r.id, ri, "across", "events-changed-by-a-later-evaluation">>} ELSE {} : ri \in Idx(r.runs)}
  \cup
  \* ... and TryEval's events are as intact for a late reader as Eval's
  UNION {LET a == r.runs[ri].tryon.evs  b == r.runs[ri].trybuf.evs IN
         IF IsPanic(r.runs[ri].tryon.res) THEN {} ELSE
         IF Len(a) # Len(b) \/ \E i \in Idx(a) : a[i].k # b[i].k \/
               (a[i].k = "op" /\ (a[i].n # b[i].n \/ ~ParamsEq(a[i].ps, b[i].ps) \/ ~OutcomeEq(a[i].r, b[i].r))) \/
               (a[i].k = "loop" /\ (a[i].pos # b[i].pos \/ ~ParamsEq(a[i].stack, b[i].stack)))
         THEN {<<"C12", r.id, ri, "try-buffered", "tryeval-events-read-later-differ">>} ELSE {} : ri \in Idx(r.runs)}
  \cup
  \* a LOOP event announces the node at its position of the (exported) program
  (IF ~r.on.hasprog THEN {} ELSE
   UNION {LET lp == Loops(r.runs[ri].sync.evs) \o Loops(r.runs[ri].tryon.evs)  N == r.on.prog.nodes IN
          IF \E i \in Idx(lp) : lp[i].pos < 1 \/ lp[i].pos > Len(N) \/
                (LET ty == N[lp[i].pos].ty IN
                 ty # (CASE lp[i].nty = "constant" -> "c" [] lp[i].nty = "variable" -> "v" [] lp[i].nty = "operator" -> "o"
                         [] lp[i].nty = "fast_operator" -> "f" [] lp[i].nty = "cond" -> (IF ty = "fi" THEN "fi" ELSE "if") [] OTHER -> "?"))
          THEN {<<"C12", r.id, ri, "sync", "loop-position-does-not-announce-its-node">>} ELSE {} : ri \in Idx(r.runs)})
  \cup
  \* TryEval: same result with events on; its OP_EXEC events are self-consistent and match the calls
  UNION {LET run == r.runs[ri]  o == run.tryon  ops == Ops(o.evs)  loops == Loops(o.evs) IN
         (IF (IsPanic(o.res) # IsPanic(run.tryoff)) \/ (IsPanic(o.res) /\ o.res.msg # run.tryoff.msg) \/
             (~IsPanic(o.res) /\ ~OutcomeEq(o.res, run.tryoff))
          THEN {<<"C12", r.id, ri, "try", "result-changed">>} ELSE {})
         \cup (IF \E i \in Idx(ops) : ops[i].n \notin CustomNames /\ ~OutcomeEq(ApplyAny(ops[i].n, ops[i].ps), ops[i].r)
               THEN {<<"C12", r.id, ri, "try", "op-inconsistent">>} ELSE {})
         \cup (IF ~IsPanic(o.res) /\ Len(CustomOps(o.evs)) # Len(Calls(o.eff)) THEN {<<"C12", r.id, ri, "try", "custom-ops">>} ELSE {})
         \cup (IF \E i \in 1..(Len(loops) - 1) : loops[i + 1].pos <= loops[i].pos
               THEN {<<"C12", r.id, ri, "try", "loop-order">>} ELSE {})
         \cup (IF ~LoopStackConsistent(o.evs) THEN {<<"C12", r.id, ri, "try", "loop-stack-is-not-the-operand-stack">>} ELSE {})
         : ri \in Idx(r.runs)}

\* a finding caused by the aliased two-slot argument buffer (F-C12-1): only the late
\* readers see it, only in parameters, and only when at least two two-operand
\* applications happened (the buffer was overwritten)
Aliasing(r, f) ==
  f[4] \in {"buffered", "retained"} /\ f[5] \in {"custom-ops", "op-inconsistent", "op-sequence"} /\
  LET run == r.runs[f[3]]
      late == Ops(D(run, f[4]).evs)
      sync == Ops(run.sync.evs)
  IN /\ FRun(r, f[3], "sync") = {}
     /\ Len(late) = Len(sync)
     /\ \A i \in Idx(late) : late[i].n = sync[i].n /\ OutcomeEq(late[i].r, sync[i].r) /\
                            (~ParamsEq(late[i].ps, sync[i].ps) => Len(sync[i].ps) = 2)
     /\ Card({i \in Idx(sync) : Len(sync[i].ps) = 2}) >= 2

\* drift: the model's event layout and event stream on the exported program
Drifts(r) ==
  IF r.on.cout # "ok" \/ ~r.on.hasprog THEN {} ELSE
  (IF ~ProgEq(AddEvents(Layout(Optimize(r.tree, r.on.m, DefaultCfg))), r.on.prog) THEN {<<"DRIFT", r.id, 0, "event-layout">>} ELSE {})
  \cup
  UNION {LET run == r.runs[ri]
             s == RunEv(r.on.prog, r.envs[run.e], TRUE)
             evs == run.sync.evs
         IN IF ~Mentions(r.tree, "h") /\ ~Mentions(r.tree, "boom") /\
               (s.st # "done" \/ Len(s.out) # Len(evs) \/
                \E i \in 1..(IF Len(s.out) < Len(evs) THEN Len(s.out) ELSE Len(evs)) :
                   s.out[i].k # evs[i].k \/ (s.out[i].k = "loop" /\ s.out[i].pos # evs[i].pos))
            THEN {<<"DRIFT", r.id, ri, "event-stream">>} ELSE {} : ri \in Idx(r.runs)}

Init == l = 1 /\ judged = 0 /\ nontriv = 0 /\ skipped = 0 /\ drift = 0 /\ found = 0
Next ==
  /\ l <= Len(Trace)
  /\ l' = l + 1
  /\ LET r == Trace[l]
         F0 == FLine(r)
         K == {f \in F0 : f[3] # 0 /\ f[4] \in Discs /\ Aliasing(r, f)}
         F == F0 \ K
         Dr == Drifts(r)
     IN /\ \A f \in F : PrintT(<<"F", f[1], f[2], f[3], f[4], f[5]>>)
        /\ \A f \in K : PrintT(<<"K", f[1], f[2], f[3], f[4], "F-C12-1">>)
        /\ \A f \in Dr : PrintT(<<"DRIFT", f[2], f[3], f[4]>>)
        /\ judged' = judged + 4 * Len(r.runs)
        /\ nontriv' = nontriv + Card({ri \in Idx(r.runs) : Card({i \in Idx(Ops(r.runs[ri].sync.evs)) : Len(Ops(r.runs[ri].sync.evs)[i].ps) = 2}) >= 2}) * 4
        /\ skipped' = skipped
        /\ drift' = drift + (IF r.on.cout = "ok" /\ r.on.hasprog THEN Len(r.runs) ELSE 0)
        /\ found' = found + Card(F)
Spec == Init /\ [][Next]_vars
Done == l = Len(Trace) + 1 => PrintT(<<"SUMMARY", l - 1, judged, nontriv, skipped, drift, found>>)
Accepted == TLCGet("stats").diameter - 1 = Len(Trace)
=============================================================================
