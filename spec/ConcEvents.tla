----------------------------- MODULE ConcEvents -----------------------------
(***************************************************************************)
(* Properties C07 / C12 together: N evaluations of ONE shared program      *)
(* compiled with event reporting, all sending to the program's single      *)
(* EventChan, one consumer.  Every piece of evaluation state is per        *)
(* process; the channel is the only shared object and it is FIFO.          *)
(*                                                                         *)
(* A process is always parked just BEFORE a machine step that performs an  *)
(* externally visible effect (a variable fetch or a registered-operator    *)
(* call -- where the harness' gates are), at its start, or finished.       *)
(* Advance(p): p is released, performs that step and every following       *)
(* effect-free step, and parks again; everything those steps emit goes to  *)
(* the channel in order.  While p runs every other process is parked, so   *)
(* the order in which the consumer receives is exactly `chan`.             *)
(*                                                                         *)
(*   PerCallFaithful: when all have finished, the events of process p      *)
(*     among the received ones are exactly the events of p evaluated       *)
(*     alone (nothing lost, duplicated, reordered or attributed to the     *)
(*     other call), and every call returned what it returns alone;         *)
(*   Shuffle: the received sequence is an interleaving of the solo         *)
(*     sequences (the form in which the judge checks real runs, where      *)
(*     events carry no process id).                                        *)
(* Every terminal state prints its schedule and the harness replays it on  *)
(* the real code with gates; the judge compares the real merged stream     *)
(* with `chan` of the model under the same schedule.                       *)
(* SharedBuf = TRUE is the mutant "one argument buffer per program, events *)
(* refer to it" (the OP_EXEC parameters of one call are overwritten by the *)
(* other's): TLC returns a schedule that breaks PerCallFaithful.           *)
(***************************************************************************)
EXTENDS ConcProgs
CONSTANTS NProc, Emit, SharedBuf

VARIABLES prog, L, s, chan, sched, lastbuf
vars == <<prog, L, s, chan, sched, lastbuf>>

Init == /\ prog \in EvProgIdx
        /\ L = EvLayout(prog)
        /\ s = [p \in 1..NProc |-> InitState(L, 0)]
        /\ chan = <<>>
        /\ sched = <<>>
        /\ lastbuf = <<NIL, NIL>>      \* the argument buffer as the most recent writer left it (read by the mutant only)

Tag(p, evs) == [i \in 1..Len(evs) |-> [p |-> p, e |-> evs[i]]]
Advance(p) ==
  /\ s[p].st = "run"
  /\ LET cur == s[p]
         eff == Effectful(L, p, cur)
         ch == Chunk(L, p, cur)
         one == ch.one                                   \* at the start: nothing pending
         nxt == ch.nxt
         new == SubSeq(nxt.out, Len(cur.out) + 1, Len(nxt.out))
     IN /\ (eff \/ Len(cur.eff) = 0)       \* parked before an effect, or not started
        /\ (nxt.pc # cur.pc \/ nxt.st # cur.st)
        /\ s' = [s EXCEPT ![p] = nxt]
        /\ chan' = chan \o Tag(p, new)
        /\ lastbuf' = IF \E i \in 1..Len(new) : new[i].k = "op" /\ Len(new[i].ps) = 2 THEN nxt.buf ELSE lastbuf
        /\ sched' = Append(sched, <<p, Len(one.eff) - Len(cur.eff)>>)
  /\ UNCHANGED <<prog, L>>
Next == \E p \in 1..NProc : Advance(p)
Spec == Init /\ [][Next]_vars

AllDone == \A p \in 1..NProc : s[p].st # "run"
Solo(p) == RunEv(L, EnvOf(p), TRUE)
\* what the consumer holds for process p once everything has finished; in the mutant a two-operand OP_EXEC event
\* refers to one buffer that all calls write
Of(p) == LET q == SelectSeq(chan, LAMBDA x : x.p = p) IN
         [i \in 1..Len(q) |-> IF SharedBuf /\ q[i].e.k = "op" /\ Len(q[i].e.ps) = 2 THEN [q[i].e EXCEPT !.ps = lastbuf] ELSE q[i].e]
PerCallFaithful ==
  AllDone => \A p \in 1..NProc : /\ s[p].st = "done" /\ OutcomeEq(s[p].res, Solo(p).res)
                                 /\ SameEvents(Of(p), Solo(p).out)
Shuffle == (AllDone /\ NProc = 2) =>
             IsShuffle(Solo(1).out, Solo(2).out, [i \in 1..Len(chan) |-> chan[i].e])
NoPanic == \A p \in 1..NProc : s[p].st \in {"run", "done"}
ProgramImmutable == [][L' = L]_vars
EmitSchedules == (Emit /\ AllDone) => PrintT("CASE " \o ToString(prog) \o " ev " \o ToString(sched))
=============================================================================
