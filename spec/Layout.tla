------------------------------- MODULE Layout -------------------------------
(***************************************************************************)
(* From the optimized tree to the flat program (compiler.go:444-840):      *)
(* size checks, node order (post-order; a fast operator BEFORE its two     *)
(* leaves; `cond.. IF then.. FI else..`), parent table, stack slots and    *)
(* maxStackSize, short-circuit flags/targets in two passes, parent-and/or  *)
(* flags, and the event-node doubling with index remapping.                *)
(*                                                                         *)
(* Indices are 1-based; 0 stands for the code's -1 ("none"/"return").      *)
(* A node is [ty, val, cc, par, top, sc, sct, scf, pand, por] with         *)
(*   ty   "c" "v" "o" "f" "if" "fi" "ev"                                   *)
(*   top  the code's osTop + 1   (stack height after the node ran)         *)
(*   sc   the code's scIdx + 1                                             *)
(* Capacity limits are parameters so that TLC can run with small values    *)
(* (property C09): lim = [maxKids, maxNodes].                              *)
(***************************************************************************)
EXTENDS Optimizer

RealLimits == [maxKids |-> 127, maxNodes |-> 32767]

\* number of flat nodes of a tree (an `if` contributes IF and FI)
RECURSIVE Size(_)
Size(t) ==
  LET n == Len(t.kids)
      RECURSIVE sum(_, _)
      sum(i, acc) == IF i > n THEN acc ELSE sum(i + 1, acc + Size(t.kids[i]))
  IN IF t.k = "if" THEN sum(1, 2) ELSE sum(1, 1)

\* check(): operand-count limit at every node (an `if` has four children in
\* the code: cond, then, else, fi), then the node-count limit bottom-up.
RECURSIVE CheckTree(_, _)
CheckTree(t, lim) ==
  LET n == Len(t.kids)
      nk == IF t.k = "if" THEN 4 ELSE n
      RECURSIVE kids(_)
      kids(i) == IF i > n THEN "ok"
                 ELSE LET r == CheckTree(t.kids[i], lim) IN IF r # "ok" THEN r ELSE kids(i + 1)
  IN IF nk > lim.maxKids THEN "err:kids"
     ELSE LET r == kids(1) IN
          IF r # "ok" THEN r
          ELSE IF Size(t) > lim.maxNodes THEN "err:nodes" ELSE "ok"

Node(ty, val, cc, par) == [ty |-> ty, val |-> val, cc |-> cc, par |-> par, sc |-> 0]

\* Place(t, off, par): nodes of subtree t at indices off+1 .. off+Size(t)
RECURSIVE Place(_, _, _)
Place(t, off, par) ==
  LET n == Len(t.kids) IN
  CASE Leaf(t) -> <<Node(t.k, t.v, 0, par)>>
    [] t.k = "o" ->
         LET self == off + Size(t)
             RECURSIVE kids(_, _, _)
             kids(i, o, acc) == IF i > n THEN acc
                                ELSE kids(i + 1, o + Size(t.kids[i]), acc \o Place(t.kids[i], o, self))
         IN Append(kids(1, off, <<>>), Node("o", t.v, n, par))
    [] t.k = "f" ->
         LET self == off + 1 IN
         <<Node("f", t.v, n, par)>> \o Place(t.kids[1], off + 1, self) \o Place(t.kids[2], off + 2, self)
    [] t.k = "if" ->
         LET sc == Size(t.kids[1])
             sa == Size(t.kids[2])
             sb == Size(t.kids[3])
             ifi == off + sc + 1
             fii == ifi + sa + 1
         IN Place(t.kids[1], off, ifi)
            \o <<[Node("if", "if", 4, par) EXCEPT !.sc = fii]>>
            \o Place(t.kids[2], ifi, ifi)
            \o <<[Node("fi", "fi", 0, ifi) EXCEPT !.sc = fii + sb]>>
            \o Place(t.kids[3], fii, ifi)

NodeIsAnd(nd) == nd.ty \in {"o", "f"} /\ nd.val \in AndNames
NodeIsOr(nd) == nd.ty \in {"o", "f"} /\ nd.val \in OrNames

\* calAndSetStackSize: f[i] = stack height after node i
StackF(P) ==
  LET n == Len(P)
      RECURSIVE go(_, _)
      go(i, f) ==
        IF i > n THEN f
        ELSE LET p == P[i].par
                 prev0 == i - 1
                 prev == IF P[prev0].ty = "fi" THEN P[prev0].par ELSE prev0
                 v == IF p # 0 /\ P[p].ty = "f" THEN f[i - 1]
                      ELSE CASE P[i].ty \in {"c", "v", "f"} -> f[prev] + 1
                             [] P[i].ty = "o" -> f[prev] - P[i].cc + 1
                             [] P[i].ty = "if" -> f[prev] - 1
                             [] OTHER -> f[prev]
             IN go(i + 1, Append(f, v))
  IN go(2, <<1>>)

\* calAndSetShortCircuit: returns [fl |-> seq of [t, f], tg |-> seq of targets]
SC(P) ==
  LET n == Len(P)
      none == [t |-> FALSE, f |-> FALSE]
      sub(a, b) == (b.t => a.t) /\ (b.f => a.f)     \* a contains b
      isLast(i) == IF P[i].ty = "f" THEN P[i].par = i + 3 ELSE P[i].par = i + 1
      RECURSIVE climb(_, _, _, _, _)
      climb(fl, tg, flag, pp, cur) ==
        IF pp # 0 /\ sub(fl[pp], flag)
        THEN IF fl[pp] = flag THEN tg[pp]
             ELSE climb(fl, tg, flag, P[pp].par, tg[pp])
        ELSE cur
      RECURSIVE pass1(_, _, _)
      pass1(i, fl, tg) ==
        IF i = 0 THEN [fl |-> fl, tg |-> tg]
        ELSE LET p == P[i].par IN
             IF p = 0 \/ ~(NodeIsAnd(P[p]) \/ NodeIsOr(P[p]))
             THEN pass1(i - 1, [fl EXCEPT ![i] = none], [tg EXCEPT ![i] = i])
             ELSE LET base == IF NodeIsAnd(P[p]) THEN [t |-> FALSE, f |-> TRUE] ELSE [t |-> TRUE, f |-> FALSE]
                      flag == IF isLast(i) THEN [t |-> TRUE, f |-> TRUE] ELSE base
                      tgt == climb(fl, tg, flag, p, p)
                  IN pass1(i - 1, [fl EXCEPT ![i] = flag], [tg EXCEPT ![i] = tgt])
      r1 == pass1(n, [i \in 1..n |-> none], [i \in 1..n |-> 0])
      RECURSIVE pass2(_, _, _)
      pass2(i, fl, tg) ==
        IF i > n THEN [fl |-> fl, tg |-> tg]
        ELSE LET p == P[i].par IN
             IF p # 0 /\ P[p].ty = "if" /\ i > p /\ tg[p] # p
             THEN pass2(i + 1, [fl EXCEPT ![i] = [t |-> fl[i].t \/ fl[p].t, f |-> fl[i].f \/ fl[p].f]],
                               [tg EXCEPT ![i] = tg[p]])
             ELSE pass2(i + 1, fl, tg)
  IN pass2(1, r1.fl, r1.tg)

MaxOf(f) == LET RECURSIVE m(_, _)
                m(i, acc) == IF i > Len(f) THEN acc ELSE m(i + 1, IF f[i] > acc THEN f[i] ELSE acc)
            IN m(1, 0)

Layout(t) ==
  LET P0 == Place(t, 0, 0)
      n == Len(P0)
      f == StackF(P0)
      sc == SC(P0)
  IN [max |-> MaxOf(f),
      nodes |-> [i \in 1..n |->
         [ty |-> P0[i].ty, val |-> P0[i].val, cc |-> P0[i].cc, par |-> P0[i].par,
          top |-> f[i],
          sct |-> sc.fl[i].t, scf |-> sc.fl[i].f,
          sc |-> IF P0[i].ty \in {"if", "fi"} THEN P0[i].sc
                 ELSE IF sc.tg[i] = n THEN 0 ELSE sc.tg[i],
          pand |-> P0[i].par # 0 /\ NodeIsAnd(P0[P0[i].par]),
          por |-> P0[i].par # 0 /\ NodeIsOr(P0[P0[i].par])]]]

(***************************************************************************)
(* calAndSetEventNode (compiler.go:754-840).  Every real node is preceded  *)
(* by an event node except the two leaves of a fast operator; jump and     *)
(* parent indices are remapped to the real nodes' new positions; an event  *)
(* node's `val` is the new index of the real node it announces (CurtIdx).  *)
(* maxStackSize is NOT recomputed.                                         *)
(***************************************************************************)
AddEvents(L) ==
  LET N == L.nodes
      n == Len(N)
      inFast(i) == N[i].par # 0 /\ N[N[i].par].ty = "f"
      \* new index of real node i / of its event node
      RECURSIVE idx(_, _, _, _)
      idx(i, next, real, ev) ==
        IF i > n THEN [real |-> real, ev |-> ev, size |-> next - 1]
        ELSE IF inFast(i) THEN idx(i + 1, next + 1, Append(real, next), Append(ev, 0))
        ELSE idx(i + 1, next + 2, Append(real, next + 1), Append(ev, next))
      m == idx(1, 1, <<>>, <<>>)
      rmSc(s) == IF s = 0 THEN 0 ELSE m.real[s]
      realNode(i) == [N[i] EXCEPT !.sc = rmSc(N[i].sc), !.par = IF N[i].par = 0 THEN 0 ELSE m.real[N[i].par]]
      evNode(i) == [ty |-> "ev", val |-> m.real[i], cc |-> N[i].cc, top |-> N[i].top,
                    sc |-> rmSc(N[i].sc), par |-> IF N[i].par = 0 THEN 0 ELSE m.ev[N[i].par],
                    sct |-> FALSE, scf |-> FALSE, pand |-> FALSE, por |-> FALSE]
      RECURSIVE build(_, _)
      build(i, acc) ==
        IF i > n THEN acc
        ELSE IF inFast(i) THEN build(i + 1, Append(acc, realNode(i)))
        ELSE build(i + 1, Append(Append(acc, evNode(i)), realNode(i)))
  IN [max |-> L.max, nodes |-> build(1, <<>>)]

\* Compile outcome for the capacity family: "err:kids", "err:nodes",
\* "panic:makeslice" (as built: the event-mode size is computed in int16 and
\* is not checked) or "ok".  Intended: the event-mode overflow is an error.
CompileOutcome(t, lim, events, asBuilt) ==
  LET c == CheckTree(t, lim) IN
  IF c # "ok" THEN c
  ELSE IF events /\ 2 * Size(t) > lim.maxNodes
       THEN (IF asBuilt THEN "panic:makeslice" ELSE "err:nodes")
       ELSE "ok"

\* ---- comparison with a program exported from the real code (drift) ----
NodeEq(a, b) ==
  /\ a.ty = b.ty
  /\ (CASE a.ty = "c" -> VEq(a.val, b.val)
        [] a.ty = "ev" -> a.val = b.val
        [] OTHER -> a.val = b.val)
  /\ a.cc = b.cc /\ a.par = b.par /\ a.top = b.top /\ a.sc = b.sc
  /\ a.sct = b.sct /\ a.scf = b.scf /\ a.pand = b.pand /\ a.por = b.por

ProgEq(L, Q) ==
  /\ L.max = Q.max
  /\ Len(L.nodes) = Len(Q.nodes)
  /\ \A i \in 1..Len(L.nodes) : NodeEq(L.nodes[i], Q.nodes[i])

\* ---- Dump: the tree rebuilt from the parent table (util.go:400-455) ----
RECURSIVE DumpTree(_, _)
DumpTree(L, i) ==
  LET N == L.nodes
      nd == N[i]
      kidsIdx == LET RECURSIVE col(_, _)
                     col(j, acc) == IF j > Len(N) THEN acc
                                    ELSE col(j + 1, IF N[j].par = i /\ N[j].ty # "ev" THEN Append(acc, j) ELSE acc)
                 IN col(1, <<>>)
  IN CASE nd.ty = "c" -> C(nd.val)
       [] nd.ty = "v" -> V(nd.val)
       [] nd.ty = "if" -> If(DumpTree(L, kidsIdx[1]), DumpTree(L, kidsIdx[2]), DumpTree(L, kidsIdx[4]))
       [] OTHER -> LET RECURSIVE sub(_, _)
                       sub(k, acc) == IF k > Len(kidsIdx) THEN acc ELSE sub(k + 1, Append(acc, DumpTree(L, kidsIdx[k])))
                   IN O(nd.val, sub(1, <<>>))
RootIdx(L) == CHOOSE i \in 1..Len(L.nodes) :
                L.nodes[i].par = 0 /\ \A j \in 1..Len(L.nodes) : L.nodes[j].par = 0 => j <= i
DumpOf(L) == DumpTree(L, RootIdx(L))

\* ---- DumpTable(e, skipEventNode = TRUE): the numeric rows of the public table (util.go:542-672) ----
\* (0-based indices as printed; the `node` row, a truncated rendering of the value, is not modelled)
FlagStr(ty) == CASE ty = "c" -> "C" [] ty = "v" -> "V" [] ty = "o" -> "OP" [] ty = "f" -> "OPf"
                 [] ty \in {"if", "fi"} -> "COND" [] OTHER -> "EVNT"
ScStr(nd) == CASE nd.sct /\ nd.scf -> "TF" [] nd.sct -> "T" [] nd.scf -> "F" [] OTHER -> ""
TableOf(L) ==
  LET N == L.nodes
      E0 == [idx |-> <<>>, pIdx |-> <<>>, flag |-> <<>>, cCnt |-> <<>>, scIdx |-> <<>>, scVal |-> <<>>, osTop |-> <<>>]
      RECURSIVE go(_, _)
      go(i, acc) ==
        IF i > Len(N) THEN acc
        ELSE IF N[i].ty = "ev" THEN go(i + 1, acc)
        ELSE go(i + 1, [idx |-> Append(acc.idx, i - 1), pIdx |-> Append(acc.pIdx, N[i].par - 1),
                        flag |-> Append(acc.flag, FlagStr(N[i].ty)), cCnt |-> Append(acc.cCnt, N[i].cc),
                        scIdx |-> Append(acc.scIdx, N[i].sc - 1), scVal |-> Append(acc.scVal, ScStr(N[i])),
                        osTop |-> Append(acc.osTop, N[i].top - 1)])
  IN [size |-> Len(N), stack |-> L.max, rows |-> go(1, E0)]
TableEq(T, obs) ==
  /\ T.size = obs.size /\ T.stack = obs.stack
  /\ T.rows.idx = obs.idx /\ T.rows.pIdx = obs.pIdx /\ T.rows.flag = obs.flag /\ T.rows.cCnt = obs.cCnt
  /\ T.rows.scIdx = obs.scIdx /\ T.rows.scVal = obs.scVal /\ T.rows.osTop = obs.osTop

RECURSIVE TreeEq(_, _)
TreeEq(a, b) ==
  /\ a.k = b.k
  /\ (IF a.k = "c" THEN VEq(a.v, b.v) ELSE a.v = b.v)
  /\ Len(a.kids) = Len(b.kids)
  /\ \A i \in 1..Len(a.kids) : TreeEq(a.kids[i], b.kids[i])
=============================================================================
