-------------------------------- MODULE Int64 --------------------------------
(***************************************************************************)
(* Two's-complement int64 as eight 8-bit limbs, most significant first     *)
(* (TLC integers are 32-bit, and JSON numbers beyond that are truncated on *)
(* input, so wide values travel as [t |-> "w", v |-> <<l7,..,l0>>]).       *)
(* Add, negate, subtract, multiply modulo 2^64, signed compare, absolute   *)
(* value as unsigned.  Division and modulo are NOT computed: they are      *)
(* specified relationally (DivModOK), the way one defines them, so an      *)
(* observed quotient/remainder pair is checked, never recomputed.          *)
(***************************************************************************)
EXTENDS Integers, Sequences

Limbs == 8
Zero64 == <<0, 0, 0, 0, 0, 0, 0, 0>>
One64 == <<0, 0, 0, 0, 0, 0, 0, 1>>
MinInt64 == <<128, 0, 0, 0, 0, 0, 0, 0>>
MaxInt64 == <<127, 255, 255, 255, 255, 255, 255, 255>>
MinusOne64 == <<255, 255, 255, 255, 255, 255, 255, 255>>

\* ---- unsigned arithmetic on n-limb numbers (most significant first) ----
\* a + b modulo 256^n (both of length n)
AddU(a, b) ==
  LET n == Len(a)
      RECURSIVE go(_, _, _)
      go(i, carry, acc) ==     \* i from n down to 1; acc collects limbs least significant first
        IF i = 0 THEN acc
        ELSE LET sum == a[i] + b[i] + carry IN go(i - 1, sum \div 256, <<sum % 256>> \o acc)
  IN go(n, 0, <<>>)
\* the low `outLen` limbs of a * b (schoolbook; partial sums stay far below 2^31)
MulU(a, b, outLen) ==
  LET na == Len(a)  nb == Len(b)
      \* digit k (0 = least significant) of x
      da(k) == IF k < na THEN a[na - k] ELSE 0
      db(k) == IF k < nb THEN b[nb - k] ELSE 0
      RECURSIVE col(_, _, _)
      col(k, j, acc) == IF j > k THEN acc ELSE col(k, j + 1, acc + da(j) * db(k - j))
      RECURSIVE go(_, _, _)
      go(k, carry, acc) ==
        IF k = outLen THEN acc
        ELSE LET tot == col(k, 0, carry) IN go(k + 1, tot \div 256, <<tot % 256>> \o acc)
  IN go(0, 0, <<>>)
Ext(a, n) == [i \in 1..(n - Len(a)) |-> 0] \o a
LtU(a, b) ==    \* unsigned a < b, same length
  LET RECURSIVE go(_)
      go(i) == IF i > Len(a) THEN FALSE ELSE IF a[i] < b[i] THEN TRUE ELSE IF a[i] > b[i] THEN FALSE ELSE go(i + 1)
  IN go(1)

\* ---- int64 ----
IsNeg(a) == a[1] >= 128
IsZero(a) == a = Zero64
Not64(a) == [i \in 1..Limbs |-> 255 - a[i]]
Add64(a, b) == AddU(a, b)
Neg64(a) == AddU(Not64(a), One64)
Sub64(a, b) == AddU(a, Neg64(b))
Mul64(a, b) == MulU(a, b, Limbs)
Lt64(a, b) == IF IsNeg(a) # IsNeg(b) THEN IsNeg(a) ELSE LtU(a, b)
Le64(a, b) == a = b \/ Lt64(a, b)
\* |a| as an unsigned 64-bit number (|MIN| = 2^63 fits)
AbsU(a) == IF IsNeg(a) THEN Neg64(a) ELSE a

\* a small TLC integer (|i| < 2^31) as int64
FromNat(n) == <<0, 0, 0, 0, (n \div 16777216) % 256, (n \div 65536) % 256, (n \div 256) % 256, n % 256>>
FromInt(i) == IF i < 0 THEN Neg64(FromNat(-i)) ELSE FromNat(i)
\* back, when it fits 31 bits
Fits31(a) == (a[1] = 0 /\ a[2] = 0 /\ a[3] = 0 /\ a[4] = 0 /\ a[5] < 128)
             \/ (a[1] = 255 /\ a[2] = 255 /\ a[3] = 255 /\ a[4] = 255 /\ a[5] >= 128)
ToNat31(a) == ((a[5] * 256 + a[6]) * 256 + a[7]) * 256 + a[8]
ToInt(a) == IF IsNeg(a) THEN -ToNat31(Neg64(a)) ELSE ToNat31(a)

(***************************************************************************)
(* Go's truncated division: q = a / b and r = a % b for b # 0 are the      *)
(* unique pair with                                                        *)
(*     |q| * |b| + |r| = |a|   (as natural numbers, no wrap-around),       *)
(*     |r| < |b|,  r = 0 or sign(r) = sign(a),                              *)
(*     q = 0 or sign(q) = sign(a) * sign(b),                                *)
(* except the one overflowing case MIN / -1 = MIN, MIN % -1 = 0.           *)
(***************************************************************************)
DivModOK(a, b, q, r) ==
  /\ ~IsZero(b)
  /\ IF a = MinInt64 /\ b = MinusOne64 THEN q = MinInt64 /\ r = Zero64
     ELSE /\ AddU(MulU(AbsU(q), AbsU(b), 16), Ext(AbsU(r), 16)) = Ext(AbsU(a), 16)
          /\ LtU(AbsU(r), AbsU(b))
          /\ (IsZero(r) \/ IsNeg(r) = IsNeg(a))
          /\ (IsZero(q) \/ IsNeg(q) = (IsNeg(a) # IsNeg(b)))
=============================================================================
