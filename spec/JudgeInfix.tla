------------------------------- MODULE JudgeInfix -------------------------------
(***************************************************************************)
(* Trace validation for property C15: a tree rendered in prefix notation   *)
(* and in four infix styles (minimal parentheses spaced / minimal          *)
(* spacing, redundant parentheses spaced / minimal spacing), all compiled  *)
(* by the real code.  Property level: the infix compilation has the same   *)
(* decompiled tree (which must be the source tree), the same table and     *)
(* the same results as the prefix compilation.  Drift: the model lexer +   *)
(* shunting-yard parser produce the same tree from the real text.          *)
(***************************************************************************)
EXTENDS Parser, Layout, Json, IOUtils

Trace == ndJsonDeserialize(IOEnv.OBS)
VARIABLES l, judged, nontriv, skipped, drift, found
vars == <<l, judged, nontriv, skipped, drift, found>>
Idx(q) == 1..Len(q)
Card(X) == Cardinality(X)
AllOffM(m) == ~m.cf /\ ~m.rn /\ ~m.fe /\ ~m.ro

SameRes(a, b) == Len(a) = Len(b) /\ \A i \in Idx(a) : OutcomeEq(a[i], b[i])
\* constants named in the ConstantMap appear by value in the decompiled tree
RECURSIVE Plain(_)
Plain(t) == [k |-> t.k, v |-> t.v, kids |-> [i \in 1..Len(t.kids) |-> Plain(t.kids[i])]]

F(r) ==
  {f \in {<<"C15", r.id, k, 0, sig>> : k \in Idx(r.infix), sig \in {"compile", "tree", "table", "result", "not-source-tree"}} :
     LET v == r.infix[f[3]]  p == r.prefix IN
     CASE f[5] = "compile" -> v.cout # "ok" \/ p.cout # "ok"
       [] f[5] = "tree" -> v.cout = "ok" /\ p.cout = "ok" /\ v.dump # p.dump
       [] f[5] = "table" -> v.cout = "ok" /\ p.cout = "ok" /\ v.table # p.table
       [] f[5] = "result" -> v.cout = "ok" /\ p.cout = "ok" /\ ~SameRes(v.res, p.res)
       [] f[5] = "not-source-tree" -> v.cout = "ok" /\ v.dok /\ AllOffM(r.m) /\ ~TreeEq(v.dtree, Plain(r.tree))}

PCJ == [StdPC EXCEPT !.ops = {"f", "g", "h", "p", "one", "zt", "zf"}]
Drifts(r) ==
  {f \in {<<"DRIFT", r.id, k, "infix-parser">> : k \in Idx(r.infix)} :
     LET v == r.infix[f[3]]
         p == ParseText(v.chars, TRUE, [PCJ EXCEPT !.undef = r.undef], FALSE)
     IN AllOffM(r.m) /\ v.cout = "ok" /\ v.dok /\ (p.r # "ok" \/ ~TreeEq(p.tree, v.dtree))}

Init == l = 1 /\ judged = 0 /\ nontriv = 0 /\ skipped = 0 /\ drift = 0 /\ found = 0
Next ==
  /\ l <= Len(Trace)
  /\ l' = l + 1
  /\ LET r == Trace[l]
         Fs == F(r)
         D == Drifts(r)
     IN /\ \A f \in Fs : PrintT(<<"F", f[1], f[2], f[3], f[4], f[5]>>)
        /\ \A f \in D : PrintT(<<"DRIFT", f[2], f[3], f[4]>>)
        /\ judged' = judged + Len(r.infix)
        /\ nontriv' = nontriv + (IF NodeCount(r.tree) >= 4 THEN Len(r.infix) ELSE 0)
        /\ skipped' = skipped
        /\ drift' = drift + (IF AllOffM(r.m) THEN Len(r.infix) ELSE 0)
        /\ found' = found + Card(Fs)
Spec == Init /\ [][Next]_vars
Done == l = Len(Trace) + 1 => PrintT(<<"SUMMARY", l - 1, judged, nontriv, skipped, drift, found>>)
Accepted == TLCGet("stats").diameter - 1 = Len(Trace)
=============================================================================
