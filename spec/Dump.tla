-------------------------------- MODULE Dump --------------------------------
(***************************************************************************)
(* The decompiler's text (util.go:400-497) over model characters.          *)
(* DumpText(t) prints a tree the way Dump prints the program Layout(t):    *)
(* "(op" then each operand -- a leaf after one space, a non-leaf on a new   *)
(* line indented by two spaces per nesting level -- then ")".  String       *)
(* literals are printed between double quotes.                             *)
(*   Raw = TRUE : the characters as they are (the lexer has no escapes, so *)
(*                this is the only printing the lexer reads back)          *)
(*   Raw = FALSE: strconv.Quote, as the pinned code did (finding F-C13-1): *)
(*                backslash, control and non-ASCII-space characters are    *)
(*                escaped, which the lexer does not undo.                  *)
(* String values are sequences of model characters here.                   *)
(***************************************************************************)
EXTENDS Parser

\* strconv.Quote per character (ASCII letters, é and punctuation are printable)
QuoteChar(c) ==
  CASE c = "BS" -> <<"BS", "BS">>
    [] c = "NL" -> <<"BS", "n">>
    [] c = "TAB" -> <<"BS", "t">>
    [] c = "CR" -> <<"BS", "r">>
    [] c = "Q" -> <<"BS", "Q">>
    [] c = "NBSP" -> <<"BS", "u", "0", "0", "a", "0">>
    [] c = "IDSP" -> <<"BS", "u", "3", "0", "0", "0">>
    [] c = "CTL" -> <<"BS", "x", "0", "1">>
    [] OTHER -> <<c>>
RECURSIVE QuoteBody(_, _)
QuoteBody(s, raw) == IF s = <<>> THEN <<>> ELSE (IF raw THEN <<s[1]>> ELSE QuoteChar(s[1])) \o QuoteBody(Tail(s), raw)
Quote(s, raw) == <<"Q">> \o QuoteBody(s, raw) \o <<"Q">>

\* the property at leaf level: the lexer reads a printed literal back as that literal
LexInvertsQuote(s, raw) ==
  LET r == Lex(Quote(s, raw), FALSE) IN ~r.err /\ r.toks = <<[ty |-> "str", tx |-> s]>>

DigitChar(d) == CASE d = 0 -> "0" [] d = 1 -> "1" [] d = 2 -> "2" [] d = 3 -> "3" [] d = 4 -> "4"
                  [] d = 5 -> "5" [] d = 6 -> "6" [] d = 7 -> "7" [] d = 8 -> "8" [] d = 9 -> "9"
RECURSIVE NatChars(_)
NatChars(n) == IF n < 10 THEN <<DigitChar(n)>> ELSE NatChars(n \div 10) \o <<DigitChar(n % 10)>>
IntChars(i) == IF i < 0 THEN <<"-">> \o NatChars(-i) ELSE NatChars(i)

\* In this module string constants carry their characters: [t |-> "s", v |-> <<chars>>]
RECURSIVE Elems(_, _, _)
Elems(q, isStr, raw) ==
  IF q = <<>> THEN <<>>
  ELSE (IF isStr THEN Quote(q[1], raw) ELSE IntChars(q[1]))
       \o (IF Len(q) > 1 THEN <<"SP">> ELSE <<>>) \o Elems(Tail(q), isStr, raw)
LeafText(t, raw) ==
  CASE t.k = "v" -> t.v                        \* variable: its name as characters
    [] t.v.t = "b" -> IF t.v.v THEN <<"t", "r", "u", "e">> ELSE <<"f", "a", "l", "s", "e">>
    [] t.v.t = "i" -> IntChars(t.v.v)
    [] t.v.t = "s" -> Quote(t.v.v, raw)
    [] t.v.t = "il" -> <<"(">> \o Elems(t.v.v, FALSE, raw) \o <<")">>
    [] t.v.t = "sl" -> <<"(">> \o Elems(t.v.v, TRUE, raw) \o <<")">>

RepC(c, k) == [j \in 1..k |-> c]
\* returns the text; depth = nesting level of t.  depthIndent = TRUE: a non-leaf operand
\* starts on a new line indented by its depth (no re-indentation of finished text, so a
\* line break inside a string literal is left alone); FALSE: the pinned code, which
\* re-indents every line of an operand's text, literals included.
RECURSIVE DT(_, _, _, _)
DT(t, depth, raw, depthIndent) ==
  IF t.k \in {"c", "v"} THEN LeafText(t, raw)
  ELSE IF t.k = "o" /\ t.kids = <<>> THEN <<"(">> \o t.v \o <<")">>
  ELSE LET n == Len(t.kids)
           RECURSIVE reindent(_)
           reindent(tx) == IF tx = <<>> THEN <<>>
                           ELSE IF tx[1] = "NL" THEN <<"NL", "SP", "SP">> \o reindent(Tail(tx))
                           ELSE <<tx[1]>> \o reindent(Tail(tx))
           RECURSIVE ks(_, _)
           ks(i, acc) ==
             IF i > n THEN acc
             ELSE LET c == t.kids[i]
                      isLeaf == c.k \in {"c", "v"}
                      cc == DT(c, depth + 1, raw, depthIndent)
                  IN ks(i + 1, acc \o (IF isLeaf THEN <<"SP">> \o cc
                                       ELSE IF depthIndent THEN <<"NL">> \o RepC("SP", 2 * (depth + 1)) \o cc
                                       ELSE <<"NL", "SP", "SP">> \o reindent(cc)))
       IN <<"(">> \o t.v \o ks(1, <<>>) \o <<")">>
DumpText(t, raw, depthIndent) == DT(t, 0, raw, depthIndent)
=============================================================================
