------------------------------- MODULE Registry -------------------------------
(***************************************************************************)
(* Property C11: the variable-key registry and the two fetchers            *)
(* (variable.go).  km is the VariableKeyMap (name -> key).                 *)
(***************************************************************************)
EXTENDS Encodings, FiniteSets, TLC

Names(km) == DOMAIN km
Keys(km) == {km[n] : n \in DOMAIN km}
\* GetOrRegisterKey (variable.go:47-66): the key of a known name; else the first free key
\* in 1..size, else size + 1
FirstFree(km) ==
  LET size == Cardinality(DOMAIN km)
      free == {i \in 1..size : i \notin Keys(km)}
  IN IF free = {} THEN size + 1 ELSE CHOOSE i \in free : \A j \in free : i <= j
\* the same rule written relationally, as RegistryInd.tla (Apalache, unbounded keys) states it
IsFirstFree(km, k) ==
  /\ k >= 1 /\ k <= Cardinality(DOMAIN km) + 1
  /\ k \notin Keys(km)
  /\ \A j \in 1..(Cardinality(DOMAIN km) + 1) : j < k => j \in Keys(km)
KeyFor(km, name) == IF name \in DOMAIN km THEN km[name] ELSE FirstFree(km)
Register(km, name) == IF name \in DOMAIN km THEN km ELSE [n \in DOMAIN km \cup {name} |-> IF n = name THEN FirstFree(km) ELSE km[n]]

Injective(km) == \A a, b \in DOMAIN km : km[a] = km[b] => a = b
\* km2 extends km1 without changing an assignment
Extends(km1, km2) == DOMAIN km1 \subseteq DOMAIN km2 /\ \A n \in DOMAIN km1 : km2[n] = km1[n]

\* fetcher selection (variable.go:76-103); SliceMax = 255
SliceMax == 255
Choose(km, undef) ==
  IF undef \/ DOMAIN km = {} THEN "map"
  ELSE LET ks == Keys(km)
           mn == CHOOSE k \in ks : \A j \in ks : k <= j
           mx == CHOOSE k \in ks : \A j \in ks : k >= j
       IN IF 0 <= mn /\ mx <= SliceMax THEN "slice" ELSE "map"

(***************************************************************************)
(* Type normalisation (variable.go:170-215).  A binding is [kind, raw]:    *)
(* the Go type it is supplied as and its payload; Normalise gives the      *)
(* tagged value every variable read must produce.                          *)
(***************************************************************************)
IntKinds == {"int", "int8", "int16", "int32", "int64", "uint8", "uint16", "uint32", "uint64"}
TruncDivR(a, b) == LET q == (IF a < 0 THEN -a ELSE a) \div b IN IF a < 0 THEN -q ELSE q
Normalise(b) ==
  CASE b.kind \in IntKinds -> [t |-> "i", v |-> b.raw]
    [] b.kind = "uint64max" -> [t |-> "i", v |-> -1]                    \* int64(uint64(2^64-1))
    [] b.kind \in {"[]int", "[]int32", "[]int64"} -> [t |-> "il", v |-> b.raw]
    [] b.kind = "[]string" -> [t |-> "sl", v |-> b.raw]
    [] b.kind = "bool" -> [t |-> "b", v |-> b.raw]
    [] b.kind = "string" -> [t |-> "s", v |-> b.raw]
    [] b.kind = "duration_ms" -> [t |-> "i", v |-> TruncDivR(b.raw, 1000)]  \* Duration / time.Second
    [] b.kind = "duration_sn" -> [t |-> "i", v |-> b.raw[1]]                \* <<seconds, nanoseconds of the same sign>>
    [] b.kind = "unix" -> [t |-> "i", v |-> b.raw]                         \* time.Time -> Unix seconds
    \* a time.Time given by its UTC civil fields <<y, mo, d, hh, mi, ss>> (any nanoseconds, any location): Unix seconds
    \* of the second it lies in, on limbs when outside the small-integer window (years 1 .. 9999)
    [] b.kind = "time_civil" ->
         LET u == UnixSecs(b.raw[1], b.raw[2], b.raw[3], b.raw[4], b.raw[5], b.raw[6]) IN
         IF Fits31(u) /\ ToInt(u) > -1073741824 /\ ToInt(u) < 1073741824 THEN [t |-> "i", v |-> ToInt(u)] ELSE [t |-> "w", v |-> u]
=============================================================================
