-------------------------------- MODULE JudgeConc --------------------------------
(***************************************************************************)
(* Trace validation for property C07.  Every recorded call on the shared   *)
(* program -- under a TLC-generated schedule replayed with gates, in a     *)
(* sequential history, or free-running among 16 goroutines -- is compared  *)
(* with the same call made alone on a freshly compiled program (result,    *)
(* error identity, ordered effects), and the exported program before and   *)
(* after must be identical.  For the scheduled runs the Eval machine of    *)
(* the specification additionally predicts every process' outcome (drift). *)
(***************************************************************************)
EXTENDS ConcProgs, Json, IOUtils

Trace == ndJsonDeserialize(IOEnv.OBS)
VARIABLES l, judged, nontriv, skipped, drift, found
jvars == <<l, judged, nontriv, skipped, drift, found>>
Idx(q) == 1..Len(q)
Card(X) == Cardinality(X)

SameVal(a, b) == a.t = b.t /\ (IF a.t = "e" THEN (a.v = b.v) ELSE a.v = b.v)
EffEq(a, b) ==
  /\ Len(a) = Len(b)
  /\ \A i \in Idx(a) : a[i].k = b[i].k /\ a[i].n = b[i].n /\
        (a[i].k = "call" => (Len(a[i].ps) = Len(b[i].ps) /\ (\A j \in Idx(a[i].ps) : VEq(a[i].ps[j], b[i].ps[j])) /\ SameVal(a[i].r, b[i].r)))

F(r) ==
  (IF r.before # r.after THEN {<<"C07", r.id, 0, 0, "shared-program-modified">>} ELSE {})
  \cup (IF r.kind \in {"sched", "evsched"} /\ "hang" \in DOMAIN r THEN {<<"C07", r.id, 0, 0, "call-did-not-return">>} ELSE {})
  \cup {f \in {<<"C07", r.id, k, 0, sig>> : k \in Idx(r.calls), sig \in {"result-differs-from-isolated-call", "effects-differ-from-isolated-call", "panic"}} :
          LET c == r.calls[f[3]] IN
          CASE f[5] = "panic" -> c.res.t = "p"
            [] f[5] = "result-differs-from-isolated-call" -> c.res.t # "p" /\ ~SameVal(c.res, c.want)
            [] f[5] = "effects-differ-from-isolated-call" -> c.res.t # "p" /\ ~EffEq(c.eff, c.wanteff)}
\* event mode: what the one consumer received from the shared channel is an interleaving of what each call emits alone
FEv(r) ==
  IF r.kind # "evsched" \/ r.desync \/ r.nproc # 2 \/ Len(r.calls) # 2 THEN {} ELSE
  IF IsShuffle(r.calls[1].soloevs, r.calls[2].soloevs, r.merged) THEN {}
  ELSE {<<"C07", r.id, 0, 0, "events-of-concurrent-calls-are-not-an-interleaving-of-each-call's-own">>}
\* the merged stream the model predicts under the recorded schedule (ConcProgs!Chunk, as ConcEvents.tla!Advance)
ModelMerged(Lm, nproc, sch) ==
  LET RECURSIVE go(_, _, _)
      go(st, i, acc) ==
        IF i > Len(sch) THEN acc
        ELSE LET p == sch[i][1]
                 ch == Chunk(Lm, p, st[p])
             IN go([st EXCEPT ![p] = ch.nxt], i + 1, acc \o SubSeq(ch.nxt.out, Len(st[p].out) + 1, Len(ch.nxt.out)))
  IN go([p \in 1..nproc |-> InitState(Lm, 0)], 1, <<>>)
\* drift: the model's prediction for the scheduled programs
Drifts(r) ==
  IF r.kind = "evsched" THEN
    (IF r.desync THEN {<<"DRIFT", r.id, 0, "schedule-desynchronised">>}
     ELSE IF ~SameEvents(ModelMerged(EvLayout(r.prog), r.nproc, r.sched), r.merged) THEN {<<"DRIFT", r.id, 0, "concurrent-event-stream">>} ELSE {})
  ELSE
  IF r.kind # "sched" THEN {} ELSE
  LET Lm == Layout(Optimize(Progs[r.prog], MaskOf(r.prog), DefaultCfg)) IN
  {<<"DRIFT", r.id, p, "concurrent-model">> : p \in {q \in Idx(r.calls) :
        LET m == IF r.calls[q].api = "tryeval" THEN TryRun(Lm, EnvOf(q), AvOf(q)) ELSE Run(Lm, EnvOf(q))
        IN ~OutcomeEq(m.res, r.calls[q].res) \/ Len(m.eff) # Len(r.calls[q].eff)}}
  \cup (IF r.desync THEN {<<"DRIFT", r.id, 0, "schedule-desynchronised">>} ELSE {})

JInit == l = 1 /\ judged = 0 /\ nontriv = 0 /\ skipped = 0 /\ drift = 0 /\ found = 0
JNext ==
  /\ l <= Len(Trace)
  /\ l' = l + 1
  /\ LET r == Trace[l]
         Fs == F(r) \cup FEv(r)
         D == Drifts(r)
     IN /\ \A f \in Fs : PrintT(<<"F", f[1], f[2], f[3], f[4], f[5]>>)
        /\ \A f \in D : PrintT(<<"DRIFT", f[2], f[3], f[4]>>)
        /\ judged' = judged + Len(r.calls)
        /\ nontriv' = nontriv + (IF r.kind \in {"sched", "evsched"} THEN (IF Len(r.sched) > 2 * r.nproc THEN Len(r.calls) ELSE 0) ELSE Len(r.calls))
        /\ skipped' = skipped
        /\ drift' = drift + (IF r.kind \in {"sched", "evsched"} THEN Len(r.calls) ELSE 0)
        /\ found' = found + Card(Fs)
JSpec == JInit /\ [][JNext]_jvars
Done == l = Len(Trace) + 1 => PrintT(<<"SUMMARY", l - 1, judged, nontriv, skipped, drift, found>>)
Accepted == TLCGet("stats").diameter - 1 = Len(Trace)
=============================================================================
