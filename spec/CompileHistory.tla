---------------------------- MODULE CompileHistory ----------------------------
(***************************************************************************)
(* Property C08: Compile as a pure, deterministic function of config       *)
(* contents and source, over histories and interleavings.                  *)
(* A caller-owned config holds option settings (the part in-source         *)
(* directives write to) and a registry part (names an undefined-variable   *)
(* parse could register).  A compilation is a process with several steps,  *)
(* as in the code: Begin (parser takes its copy of the config), Directives *)
(* (`;;;;` comments are applied to the copy), Build (optimize + layout     *)
(* read the copy), End (the program -- here its fingerprint -- returns).   *)
(* Aliased = TRUE models a parser that works on the caller's config        *)
(* instead of a copy: TLC then finds the leak and the non-determinism.     *)
(***************************************************************************)
EXTENDS Integers, Sequences, FiniteSets, TLC
CONSTANTS Aliased, NProc

Opts == {"cf", "ro"}
Setting == {"on", "off", "unset"}
\* sources: their directives (a partial function Opts -> {"on","off"}) and whether they mention an unknown name
Sources == {[id |-> 1, dir |-> <<>>, unk |-> FALSE],
            [id |-> 2, dir |-> [o \in {"cf"} |-> "off"], unk |-> FALSE],
            [id |-> 3, dir |-> [o \in {"cf", "ro"} |-> IF o = "cf" THEN "on" ELSE "off"], unk |-> TRUE]}
Configs == {[opts |-> [o \in Opts |-> "unset"], names |-> {}],
            [opts |-> [o \in Opts |-> IF o = "cf" THEN "off" ELSE "on"], names |-> {"x"}]}
Enabled(c, o) == c.opts[o] # "off"
ApplyDir(c, src) == [c EXCEPT !.opts = [o \in Opts |-> IF o \in DOMAIN src.dir THEN src.dir[o] ELSE c.opts[o]]]
\* the program is a function of the effective configuration and the source
FP(c, src) == <<src.id, {o \in Opts : Enabled(c, o)}, c.names>>

VARIABLES cfg, proc, memo
vars == <<cfg, proc, memo>>
Idle == [st |-> "idle"]
Init == cfg \in Configs /\ proc = [p \in 1..NProc |-> Idle] /\ memo = {}

Begin(p, src) ==
  /\ proc[p].st = "idle"
  /\ proc' = [proc EXCEPT ![p] = [st |-> "begun", src |-> src, copy |-> cfg, at |-> cfg, fp |-> <<>>]]
  /\ UNCHANGED <<cfg, memo>>
Directives(p) ==
  /\ proc[p].st = "begun"
  /\ IF Aliased
     THEN /\ cfg' = ApplyDir(cfg, proc[p].src)
          /\ proc' = [proc EXCEPT ![p].st = "directed"]
     ELSE /\ proc' = [proc EXCEPT ![p].st = "directed", ![p].copy = ApplyDir(proc[p].copy, proc[p].src)]
          /\ UNCHANGED cfg
  /\ UNCHANGED memo
Build(p) ==
  /\ proc[p].st = "directed"
  /\ LET eff == IF Aliased THEN cfg ELSE proc[p].copy IN
     proc' = [proc EXCEPT ![p].st = "built", ![p].fp = FP(eff, proc[p].src)]
  /\ UNCHANGED <<cfg, memo>>
End(p) ==
  /\ proc[p].st = "built"
  /\ memo' = memo \cup {<<proc[p].at, proc[p].src.id, proc[p].fp>>}
  /\ proc' = [proc EXCEPT ![p] = Idle]
  /\ UNCHANGED cfg
Next == \E p \in 1..NProc : (\E s \in Sources : Begin(p, s)) \/ Directives(p) \/ Build(p) \/ End(p)
Spec == Init /\ [][Next]_vars

\* Compile never modifies the caller's Config
CallerUntouched == [][cfg' = cfg]_vars
\* same config contents + same source => same program, whatever ran before or runs concurrently
Deterministic == \A a, b \in memo : (a[1] = b[1] /\ a[2] = b[2]) => a[3] = b[3]
\* ... and it is the program of the directives applied to a private copy
Correct == \A a \in memo : \E s \in Sources : s.id = a[2] /\ a[3] = FP(ApplyDir(a[1], s), s)
Bounded == Cardinality(memo) <= 12
=============================================================================
